//go:build verif

package main

// Contracts for /verif (govc).  No code here.

// package invariant: the flag variables are created by the var initialisers
//@ invariant infile != nil && inform != nil && configProto != nil && quiet != nil && verbosity != nil
//@ invariant qevendorid != nil && mrseam != nil && tdattributes != nil && xfam != nil && mrtd != nil && mrconfigid != nil
//@ invariant mrowner != nil && mrownerconfig != nil && reportdata != nil && minteetcbsvn != nil && rtmrs != nil && cabundles != nil
//@ invariant minqesvn != nil && minpcesvn != nil && checkcrl != nil && getcollateral != nil && timeout != nil && maxRetryDelay != nil && testLocalGetter != nil
//@ invariant config != nil

//@ define configComplete() = config.RootOfTrust != nil && config.Policy != nil && config.Policy.HeaderPolicy != nil && config.Policy.TdQuoteBodyPolicy != nil

//@ func configProtoPresent() (r)
//@   ensures r <==> *configProto != ""

//@ func dieWith(err, exitCode)
//@   noreturn
//@   records die

//@ func die(err)
//@   inline

//@ func setBool(value, name, flag, defaultValue) (err)
//@   requires value != nil
//@   assigns *value
//@   ensures[unset-config] flag == "" && *configProto != "" ==> err == nil && *value == old(*value)
//@   ensures[unset-default] flag == "" && *configProto == "" ==> err == nil && *value == defaultValue
//@   ensures[true] flag == "true" ==> err == nil && *value
//@   ensures[false] flag == "false" ==> err == nil && !*value
//@   ensures[malformed] flag != "" && flag != "true" && flag != "false" ==> err != nil && *value == old(*value)

//@ func parseUint(p, bits) (r, err)
//@   records parseuint
//@   ensures[fits] err == nil && bits > 0 && bits < 64 ==> (r >> bits) == 0

//@ func setUint(value, bits, name, flag, defaultValue) (err)
//@   requires value != nil
//@   assigns *value
//@   ensures[unset-config] flag == "" && *configProto != "" ==> err == nil && *value == old(*value)
//@   ensures[unset-default] flag == "" && *configProto == "" ==> err == nil && *value == defaultValue
//@   ensures[malformed] err != nil ==> *value == old(*value) && flag != ""
//@   emits parseuint 1
//@   ensures[exact] flag != "" && err == nil ==> parseuint[0].happened && *value == after(parseuint[0], r) && after(parseuint[0], err == nil)
//@ |       && before(parseuint[0], p == flag && bits == outer_bits)
//@   ensures[fits] flag != "" && err == nil && bits > 0 && bits < 64 ==> (*value >> bits) == 0

//@ func setUint32(value, name, flag, defaultValue) (err)
//@   requires value != nil
//@   assigns *value
//@   ensures[unset-config] flag == "" && *configProto != "" ==> err == nil && *value == old(*value)
//@   ensures[unset-default] flag == "" && *configProto == "" ==> err == nil && *value == uint32(defaultValue)
//@   ensures[malformed] err != nil ==> *value == old(*value) && flag != ""
//@   emits parseuint 1
//@   ensures[exact] flag != "" && err == nil ==> parseuint[0].happened && uint64(*value) == after(parseuint[0], r) && before(parseuint[0], p == flag && bits == 32)

//@ func parseConfig(path) (err)
//@   assigns reach(config)
//@   ensures[complete] err == nil && path != "" ==> configComplete()
//@   ensures[untouched] path == "" ==> err == nil && (old(configComplete()) ==> configComplete())

//@ func populateRootOfTrust() (err)
//@   requires config.RootOfTrust != nil
//@   assigns config.RootOfTrust.CheckCrl, config.RootOfTrust.GetCollateral, config.RootOfTrust.CabundlePaths

//@ func populateConfig() (err)
//@   requires configComplete()
//@   assigns config.Policy.HeaderPolicy.QeVendorId, config.Policy.HeaderPolicy.MinimumQeSvn, config.Policy.HeaderPolicy.MinimumPceSvn
//@   assigns config.Policy.TdQuoteBodyPolicy.MinimumTeeTcbSvn, config.Policy.TdQuoteBodyPolicy.MrSeam, config.Policy.TdQuoteBodyPolicy.TdAttributes
//@   assigns config.Policy.TdQuoteBodyPolicy.Xfam, config.Policy.TdQuoteBodyPolicy.MrTd, config.Policy.TdQuoteBodyPolicy.MrConfigId
//@   assigns config.Policy.TdQuoteBodyPolicy.MrOwner, config.Policy.TdQuoteBodyPolicy.MrOwnerConfig, config.Policy.TdQuoteBodyPolicy.ReportData
//@   assigns config.Policy.TdQuoteBodyPolicy.Rtmrs
//@   ensures[flag-overrides] (*qevendorid != nil ==> config.Policy.HeaderPolicy.QeVendorId == *qevendorid)
//@ |     && (*mrseam != nil ==> config.Policy.TdQuoteBodyPolicy.MrSeam == *mrseam) && (*tdattributes != nil ==> config.Policy.TdQuoteBodyPolicy.TdAttributes == *tdattributes)
//@ |     && (*xfam != nil ==> config.Policy.TdQuoteBodyPolicy.Xfam == *xfam) && (*mrtd != nil ==> config.Policy.TdQuoteBodyPolicy.MrTd == *mrtd)
//@ |     && (*mrconfigid != nil ==> config.Policy.TdQuoteBodyPolicy.MrConfigId == *mrconfigid) && (*mrowner != nil ==> config.Policy.TdQuoteBodyPolicy.MrOwner == *mrowner)
//@ |     && (*mrownerconfig != nil ==> config.Policy.TdQuoteBodyPolicy.MrOwnerConfig == *mrownerconfig)
//@ |     && (*reportdata != nil ==> config.Policy.TdQuoteBodyPolicy.ReportData == *reportdata)
//@ |     && (*minteetcbsvn != nil ==> config.Policy.TdQuoteBodyPolicy.MinimumTeeTcbSvn == *minteetcbsvn)
//@   ensures[unset-keeps-config] (*qevendorid == nil ==> config.Policy.HeaderPolicy.QeVendorId == old(config.Policy.HeaderPolicy.QeVendorId))
//@ |     && (*mrseam == nil ==> config.Policy.TdQuoteBodyPolicy.MrSeam == old(config.Policy.TdQuoteBodyPolicy.MrSeam))
//@ |     && (*tdattributes == nil ==> config.Policy.TdQuoteBodyPolicy.TdAttributes == old(config.Policy.TdQuoteBodyPolicy.TdAttributes))
//@ |     && (*xfam == nil ==> config.Policy.TdQuoteBodyPolicy.Xfam == old(config.Policy.TdQuoteBodyPolicy.Xfam))
//@ |     && (*mrtd == nil ==> config.Policy.TdQuoteBodyPolicy.MrTd == old(config.Policy.TdQuoteBodyPolicy.MrTd))
//@ |     && (*mrconfigid == nil ==> config.Policy.TdQuoteBodyPolicy.MrConfigId == old(config.Policy.TdQuoteBodyPolicy.MrConfigId))
//@ |     && (*mrowner == nil ==> config.Policy.TdQuoteBodyPolicy.MrOwner == old(config.Policy.TdQuoteBodyPolicy.MrOwner))
//@ |     && (*mrownerconfig == nil ==> config.Policy.TdQuoteBodyPolicy.MrOwnerConfig == old(config.Policy.TdQuoteBodyPolicy.MrOwnerConfig))
//@ |     && (*reportdata == nil ==> config.Policy.TdQuoteBodyPolicy.ReportData == old(config.Policy.TdQuoteBodyPolicy.ReportData))
//@ |     && (*minteetcbsvn == nil ==> config.Policy.TdQuoteBodyPolicy.MinimumTeeTcbSvn == old(config.Policy.TdQuoteBodyPolicy.MinimumTeeTcbSvn))
//@ |     && (*rtmrs == "" ==> config.Policy.TdQuoteBodyPolicy.Rtmrs == old(config.Policy.TdQuoteBodyPolicy.Rtmrs))

//@ func readQuote() (q, err)
//@ func parseQuote(b) (q, err)
//@ func parseQuoteBytes(b) (q, err)
//@ func parsePaths(s) (r, err)
//@ func parseRtmrs(s) (r, err)

// exit codes: 1 tool usage, 2 verification, 3 collateral download, 4 policy
//@ func main()
//@   requires configComplete()
//@   assigns \anything
//@   at dieWith: requires[exit-code-range] exitCode == 1 || exitCode == 2 || exitCode == 3 || exitCode == 4
//@   at dieWith: requires[exit-verify] exitCode == 2 || exitCode == 3 ==> verify_tdxquote[0].happened && after(verify_tdxquote[0], err != nil)
//@   at dieWith: requires[exit-network] verify_tdxquote[0].happened && after(verify_tdxquote[0], err != nil && (errhas(err, "*trust.AttestationRecreationErr") || errhas(err, "verify.CRLUnavailableErr"))) ==> exitCode == 3
//@   at dieWith: requires[exit-network-only] exitCode == 3 ==> after(verify_tdxquote[0], errhas(err, "*trust.AttestationRecreationErr") || errhas(err, "verify.CRLUnavailableErr"))
//@   at dieWith: requires[exit-policy] exitCode == 4 ==> after(verify_tdxquote[0], err == nil) && policytooptions[0].happened && after(policytooptions[0], err == nil)
//@ |       && validate_tdxquote[0].happened && after(validate_tdxquote[0], err != nil)
//@   at dieWith: requires[exit-tool] exitCode == 1 ==> !validate_tdxquote[0].happened && (!verify_tdxquote[0].happened || after(verify_tdxquote[0], err == nil))
//@   ensures[exit-0] verify_tdxquote[0].happened && after(verify_tdxquote[0], err == nil) && policytooptions[0].happened && after(policytooptions[0], err == nil)
//@ |       && validate_tdxquote[0].happened && after(validate_tdxquote[0], err == nil)
// exit 0 also says the policy was applied as given: no numeric field outside
// its range was narrowed on the way, every byte-string option has its length
//@   ensures[exit-0-policy-as-given] after(policytooptions[0], polQe(policy) <= 65535 && polPce(policy) <= 65535 && r != nil && optsLenOK(r)
//@ |       && r.HeaderOptions.MinimumQeSvn == uint16(polQe(policy)) && r.HeaderOptions.MinimumPceSvn == uint16(polPce(policy)))
//@   ensures[same-quote] before(validate_tdxquote[0], quote) == before(verify_tdxquote[0], quote)
//@   ensures[effective-policy] before(policytooptions[0], policy == config.Policy) && before(validate_tdxquote[0], options) == after(policytooptions[0], r)
//@   ensures[effective-root-of-trust] rootoftrust[0].happened && before(rootoftrust[0], rot == config.RootOfTrust) && before(verify_tdxquote[0], options) == after(rootoftrust[0], r)
