//go:build verif

package abi

// Contracts for /verif (contract-based deductive verification with govc).
// This file contains no code; every line starting with //@ is a contract
// clause read by the verification-condition generator.  Offsets are literal
// numbers of the Intel TDX quote v4 layout, deliberately NOT the constants of
// abi.go, so that a self-consistent wrong offset in the code fails a proof.

// ---- structural well-formedness predicates (one per message) ----

//@ define hdrOK(h) = h != nil && h.Version == 4 && h.AttestationKeyType == 2 && h.TeeType == 0x81
//@ |   && len(h.QeSvn) == 2 && len(h.PceSvn) == 2 && len(h.QeVendorId) == 16 && len(h.UserData) == 20

//@ define bodyOK(b) = b != nil && len(b.TeeTcbSvn) == 16 && len(b.MrSeam) == 48 && len(b.MrSignerSeam) == 48
//@ |   && len(b.SeamAttributes) == 8 && len(b.TdAttributes) == 8 && len(b.Xfam) == 8 && len(b.MrTd) == 48
//@ |   && len(b.MrConfigId) == 48 && len(b.MrOwner) == 48 && len(b.MrOwnerConfig) == 48 && len(b.Rtmrs) == 4
//@ |   && (forall i :: 0 <= i && i < 4 ==> len(b.Rtmrs[i]) == 48) && len(b.ReportData) == 64

//@ define qerOK(r) = r != nil && len(r.CpuSvn) == 16 && len(r.Reserved1) == 28 && len(r.Attributes) == 16
//@ |   && len(r.MrEnclave) == 32 && len(r.Reserved2) == 32 && len(r.MrSigner) == 32 && len(r.Reserved3) == 96
//@ |   && r.IsvProdId < 65536 && r.IsvSvn < 65536 && len(r.Reserved4) == 60 && len(r.ReportData) == 64

//@ define authOK(a) = a != nil && a.ParsedDataSize < 65536 && a.ParsedDataSize == uint32(len(a.Data))

//@ define chainOK(c) = c != nil && c.CertificateDataType == 5 && c.Size == uint32(len(c.PckCertChain))

//@ define qercOK(q) = q != nil && qerOK(q.QeReport) && len(q.QeReportSignature) == 64 && authOK(q.QeAuthData)
//@ |   && chainOK(q.PckCertificateChainData)

//@ define certOK(c) = c != nil && c.CertificateDataType == 6 && qercOK(c.QeReportCertificationData)

//@ define sdOK(s) = s != nil && len(s.Signature) == 64 && len(s.EcdsaAttestationKey) == 64 && certOK(s.CertificationData)

//@ define quoteOK(q) = q != nil && hdrOK(q.Header) && bodyOK(q.TdQuoteBody) && sdOK(q.SignedData)

// ---- byte layouts (serialised form) ----

//@ define hdrBytes(h) = cat(le16(h.Version), le16(h.AttestationKeyType), le32(h.TeeType), seq(h.PceSvn), seq(h.QeSvn),
//@ |   seq(h.QeVendorId), seq(h.UserData))

//@ define bodyBytes(b) = cat(seq(b.TeeTcbSvn), seq(b.MrSeam), seq(b.MrSignerSeam), seq(b.SeamAttributes), seq(b.TdAttributes),
//@ |   seq(b.Xfam), seq(b.MrTd), seq(b.MrConfigId), seq(b.MrOwner), seq(b.MrOwnerConfig),
//@ |   seq(b.Rtmrs[0]), seq(b.Rtmrs[1]), seq(b.Rtmrs[2]), seq(b.Rtmrs[3]), seq(b.ReportData))

//@ define qerBytes(r) = cat(seq(r.CpuSvn), le32(r.MiscSelect), seq(r.Reserved1), seq(r.Attributes), seq(r.MrEnclave),
//@ |   seq(r.Reserved2), seq(r.MrSigner), seq(r.Reserved3), le16(r.IsvProdId), le16(r.IsvSvn), seq(r.Reserved4), seq(r.ReportData))

//@ define authBytes(a) = cat(le16(a.ParsedDataSize), seq(a.Data))

//@ define chainBytes(c) = cat(le16(c.CertificateDataType), le32(c.Size), seq(c.PckCertChain))

//@ define qercBytes(q) = cat(qerBytes(q.QeReport), seq(q.QeReportSignature), authBytes(q.QeAuthData), chainBytes(q.PckCertificateChainData))

//@ define certBytes(c) = cat(le16(c.CertificateDataType), le32(c.Size), qercBytes(c.QeReportCertificationData))

//@ define sdBytes(s) = cat(seq(s.Signature), seq(s.EcdsaAttestationKey), certBytes(s.CertificationData))

//@ define quoteBytes(q) = cat(hdrBytes(q.Header), bodyBytes(q.TdQuoteBody), le32(q.SignedDataSize), sdBytes(q.SignedData), seq(q.ExtraBytes))

// ---- helpers ----

//@ func clone(b) (r)
//@   ensures len(r) == len(b) && cap(r) == len(b) && r != nil
//@   ensures seq(r) == seq(b)
//@   fresh r

//@ func ecdsaGetR(signature) (r)
//@   inline
//@ func ecdsaGetS(signature) (r)
//@   inline

// ---- checkers: accept exactly the well-formed messages ----

//@ func checkHeader(header) (err)
//@   ensures[iff] err == nil <==> hdrOK(header)

//@ func checkTDQuoteBody(tdQuoteBody) (err)
//@   ensures[iff] err == nil <==> bodyOK(tdQuoteBody)
//@   loop 0: unroll 4

//@ func checkPCKCertificateChain(chain) (err)
//@   ensures[iff] err == nil <==> chainOK(chain)

//@ func checkQeReport(report) (err)
//@   ensures[iff] err == nil <==> qerOK(report)

//@ func checkQeAuthData(authData) (err)
//@   ensures[iff] err == nil <==> authOK(authData)

//@ func checkQeReportCertificationData(qeReport) (err)
//@   ensures[iff] err == nil <==> qercOK(qeReport)

//@ func checkCertificationData(certification) (err)
//@   ensures[iff] err == nil <==> certOK(certification)

//@ func checkEcdsa256BitQuoteV4AuthData(signedData) (err)
//@   ensures[iff] err == nil <==> sdOK(signedData)

//@ func CheckQuoteV4(quote) (err)
//@   ensures[iff] err == nil <==> quoteOK(quote)

// ---- serialisers: total, exact layout, fresh result ----

//@ func HeaderToAbiBytes(header) (r, err)
//@   ensures[iff] err == nil <==> hdrOK(header)
//@   ensures[layout] err == nil ==> seq(r) == hdrBytes(header)
//@   ensures[len] err == nil ==> len(r) == 48
//@   fresh r

//@ func TdQuoteBodyToAbiBytes(tdQuoteBody) (r, err)
//@   ensures[iff] err == nil <==> bodyOK(tdQuoteBody)
//@   ensures[layout] err == nil ==> seq(r) == bodyBytes(tdQuoteBody)
//@   ensures[len] err == nil ==> len(r) == 584
//@   loop 0: unroll 4
//@   fresh r

//@ func EnclaveReportToAbiBytes(report) (r, err)
//@   ensures[iff] err == nil <==> qerOK(report)
//@   ensures[layout] err == nil ==> seq(r) == qerBytes(report)
//@   ensures[len] err == nil ==> len(r) == 384
//@   fresh r

//@ func pckCertificateChainToAbiBytes(pckCertificateChain) (r, err)
//@   ensures[iff] err == nil <==> chainOK(pckCertificateChain)
//@   ensures[layout] err == nil ==> seq(r) == chainBytes(pckCertificateChain)
//@   fresh r

//@ func qeAuthDataToAbiBytes(authData) (r, err)
//@   ensures[iff] err == nil <==> authOK(authData)
//@   ensures[layout] err == nil ==> seq(r) == authBytes(authData)
//@   fresh r

//@ func qeReportCertificationDataToAbiBytes(qeReport) (r, err)
//@   ensures[iff] err == nil <==> qercOK(qeReport)
//@   ensures[layout] err == nil ==> seq(r) == qercBytes(qeReport)
//@   fresh r

//@ func certificationDataToAbiBytes(certification) (r, err)
//@   ensures[iff] err == nil <==> certOK(certification)
//@   ensures[layout] err == nil ==> seq(r) == certBytes(certification)
//@   fresh r

//@ func signedDataToAbiBytes(signedData) (r, err)
//@   ensures[iff] err == nil <==> sdOK(signedData)
//@   ensures[layout] err == nil ==> seq(r) == sdBytes(signedData)
//@   fresh r

//@ func quoteToAbiBytesV4(quote) (r, err)
//@   ensures[iff] err == nil <==> quoteOK(quote)
//@   ensures[layout] err == nil ==> seq(r) == quoteBytes(quote)
//@   fresh r

//@ func QuoteToAbiBytes(quote) (r, err)
//@   ensures[iff] err == nil <==> typeis(quote, "*tdx.QuoteV4") && quoteOK(as(quote, "*tdx.QuoteV4"))
//@   ensures[layout] err == nil ==> seq(r) == quoteBytes(as(quote, "*tdx.QuoteV4"))
//@   fresh r

// ---- wire-format well-formedness of byte strings (literal v4 offsets) ----

//@ define chainWF(s) = len(s) >= 6 && rd16(s, 0) == 5 && int(rd32(s, 2)) == len(s) - 6

//@ define authWF(s) = len(s) >= 2 && 2 + int(rd16(s, 0)) <= len(s)

//@ define qercWF(s) = len(s) >= 450 && 456 + int(rd16(s, 448)) <= len(s) && rd16(s, 450 + int(rd16(s, 448))) == 5
//@ |   && int(rd32(s, 452 + int(rd16(s, 448)))) == len(s) - 456 - int(rd16(s, 448))

//@ define certWF(s) = len(s) >= 6 && rd16(s, 0) == 6 && int(rd32(s, 2)) == len(s) - 6 && qercWF(s[6:])

//@ define sdWF(s) = len(s) >= 128 && certWF(s[128:])

//@ define quoteWF(s) = len(s) >= 1020 && rd16(s, 0) == 4 && rd16(s, 2) == 2 && rd32(s, 4) == 0x81
//@ |   && int(rd32(s, 632)) <= len(s) - 636 && sdWF(s[636:636+int(rd32(s, 632))])

// ---- field-by-field meaning of a parse result (every field is the literal slice) ----

//@ define hdrFields(h, s) = h != nil && h.Version == uint32(rd16(s, 0)) && h.AttestationKeyType == uint32(rd16(s, 2))
//@ |   && h.TeeType == rd32(s, 4) && seq(h.PceSvn) == s[8:10] && seq(h.QeSvn) == s[10:12]
//@ |   && seq(h.QeVendorId) == s[12:28] && seq(h.UserData) == s[28:48]

//@ define bodyFields(t, s) = t != nil && seq(t.TeeTcbSvn) == s[0:16] && seq(t.MrSeam) == s[16:64] && seq(t.MrSignerSeam) == s[64:112]
//@ |   && seq(t.SeamAttributes) == s[112:120] && seq(t.TdAttributes) == s[120:128] && seq(t.Xfam) == s[128:136]
//@ |   && seq(t.MrTd) == s[136:184] && seq(t.MrConfigId) == s[184:232] && seq(t.MrOwner) == s[232:280]
//@ |   && seq(t.MrOwnerConfig) == s[280:328] && len(t.Rtmrs) == 4 && seq(t.Rtmrs[0]) == s[328:376] && seq(t.Rtmrs[1]) == s[376:424]
//@ |   && seq(t.Rtmrs[2]) == s[424:472] && seq(t.Rtmrs[3]) == s[472:520] && seq(t.ReportData) == s[520:584]

//@ define qerFields(r, s) = r != nil && seq(r.CpuSvn) == s[0:16] && r.MiscSelect == rd32(s, 16) && seq(r.Reserved1) == s[20:48]
//@ |   && seq(r.Attributes) == s[48:64] && seq(r.MrEnclave) == s[64:96] && seq(r.Reserved2) == s[96:128]
//@ |   && seq(r.MrSigner) == s[128:160] && seq(r.Reserved3) == s[160:256] && r.IsvProdId == uint32(rd16(s, 256))
//@ |   && r.IsvSvn == uint32(rd16(s, 258)) && seq(r.Reserved4) == s[260:320] && seq(r.ReportData) == s[320:384]

//@ define authFields(a, s) = a != nil && a.ParsedDataSize == uint32(rd16(s, 0)) && seq(a.Data) == s[2:2+int(rd16(s, 0))]

//@ define chainFields(c, s) = c != nil && c.CertificateDataType == uint32(rd16(s, 0)) && c.Size == rd32(s, 2) && seq(c.PckCertChain) == s[6:]

//@ define qercFields(q, s) = q != nil && qerFields(q.QeReport, s[0:384]) && seq(q.QeReportSignature) == s[384:448]
//@ |   && authFields(q.QeAuthData, s[448:]) && chainFields(q.PckCertificateChainData, s[450+int(rd16(s, 448)):])

//@ define certFields(c, s) = c != nil && c.CertificateDataType == uint32(rd16(s, 0)) && c.Size == rd32(s, 2)
//@ |   && qercFields(c.QeReportCertificationData, s[6:])

//@ define sdFields(d, s) = d != nil && seq(d.Signature) == s[0:64] && seq(d.EcdsaAttestationKey) == s[64:128]
//@ |   && certFields(d.CertificationData, s[128:])

//@ define quoteFields(q, s) = q != nil && hdrFields(q.Header, s[0:48]) && bodyFields(q.TdQuoteBody, s[48:632])
//@ |   && q.SignedDataSize == rd32(s, 632) && sdFields(q.SignedData, s[636:636+int(rd32(s, 632))])
//@ |   && seq(q.ExtraBytes) == s[636+int(rd32(s, 632)):]

// freshness of every byte slice stored in a parse result
//@ define hdrFresh(h) = fresh(h.PceSvn) && fresh(h.QeSvn) && fresh(h.QeVendorId) && fresh(h.UserData)
//@ define bodyFresh(t) = fresh(t.TeeTcbSvn) && fresh(t.MrSeam) && fresh(t.MrSignerSeam) && fresh(t.SeamAttributes)
//@ |   && fresh(t.TdAttributes) && fresh(t.Xfam) && fresh(t.MrTd) && fresh(t.MrConfigId) && fresh(t.MrOwner)
//@ |   && fresh(t.MrOwnerConfig) && fresh(t.Rtmrs) && fresh(t.Rtmrs[0]) && fresh(t.Rtmrs[1]) && fresh(t.Rtmrs[2])
//@ |   && fresh(t.Rtmrs[3]) && fresh(t.ReportData)
//@ define qerFresh(r) = fresh(r.CpuSvn) && fresh(r.Reserved1) && fresh(r.Attributes) && fresh(r.MrEnclave) && fresh(r.Reserved2)
//@ |   && fresh(r.MrSigner) && fresh(r.Reserved3) && fresh(r.Reserved4) && fresh(r.ReportData)
//@ define qercFresh(q) = qerFresh(q.QeReport) && fresh(q.QeReportSignature) && fresh(q.QeAuthData.Data)
//@ |   && fresh(q.PckCertificateChainData.PckCertChain)
//@ define sdFresh(d) = fresh(d.Signature) && fresh(d.EcdsaAttestationKey) && qercFresh(d.CertificationData.QeReportCertificationData)
//@ define quoteFresh(q) = hdrFresh(q.Header) && bodyFresh(q.TdQuoteBody) && sdFresh(q.SignedData) && fresh(q.ExtraBytes)

// ---- parsers ----

//@ func determineQuoteFormat(b) (v, err)
//@   ensures[iff] err == nil <==> len(b) >= 2
//@   ensures[val] err == nil ==> v == uint32(rd16(seq(b), 0))

//@ func headerToProto(b) (r, err)
//@   requires len(b) == 48
//@   ensures[iff] err == nil <==> rd16(seq(b), 0) == 4 && rd16(seq(b), 2) == 2 && rd32(seq(b), 4) == 0x81
//@   ensures[fields] err == nil ==> hdrFields(r, seq(b))
//@   ensures[ok] err == nil ==> hdrOK(r)
//@   ensures[fresh] err == nil ==> hdrFresh(r)
//@   ensures[reserialise] err == nil ==> hdrBytes(r) == seq(b)

//@ func tdQuoteBodyToProto(b) (r, err)
//@   requires len(b) == 584
//@   ensures[total] err == nil
//@   ensures[fields] bodyFields(r, seq(b))
//@   ensures[ok] bodyOK(r)
//@   ensures[fresh] bodyFresh(r)
//@   loop 0: unroll 4
//@   ensures[reserialise] bodyBytes(r) == seq(b)

//@ func enclaveReportToProto(b) (r, err)
//@   requires len(b) == 384
//@   ensures[total] err == nil
//@   ensures[fields] qerFields(r, seq(b))
//@   ensures[ok] qerOK(r)
//@   ensures[fresh] qerFresh(r)
//@   ensures[reserialise] qerBytes(r) == seq(b)

//@ func qeAuthDataToProto(b) (r, n, err)
//@   ensures[iff] err == nil <==> authWF(seq(b))
//@   ensures[fields] err == nil ==> authFields(r, seq(b)) && n == 2 + uint32(rd16(seq(b), 0))
//@   ensures[ok] err == nil ==> authOK(r)
//@   ensures[fresh] err == nil ==> fresh(r.Data)
//@   ensures[reserialise] err == nil ==> authBytes(r) == seq(b)[0:2+int(rd16(seq(b), 0))]

//@ func pckCertificateChainToProto(b) (r, err)
//@   ensures[iff] err == nil <==> chainWF(seq(b))
//@   ensures[fields] err == nil ==> chainFields(r, seq(b))
//@   ensures[ok] err == nil ==> chainOK(r)
//@   ensures[fresh] err == nil ==> fresh(r.PckCertChain)
//@   ensures[reserialise] err == nil ==> chainBytes(r) == seq(b)

//@ func qeReportCertificationDataToProto(b) (r, err)
//@   ensures[iff] err == nil <==> qercWF(seq(b))
//@   ensures[fields] err == nil ==> qercFields(r, seq(b))
//@   ensures[ok] err == nil ==> qercOK(r)
//@   ensures[fresh] err == nil ==> qercFresh(r)
//@   ensures[reserialise] err == nil ==> qercBytes(r) == seq(b)

//@ func certificationDataToProto(b) (r, err)
//@   ensures[iff] err == nil <==> certWF(seq(b))
//@   ensures[fields] err == nil ==> certFields(r, seq(b))
//@   ensures[ok] err == nil ==> certOK(r)
//@   ensures[fresh] err == nil ==> qercFresh(r.QeReportCertificationData)
//@   ensures[reserialise] err == nil ==> certBytes(r) == seq(b)

//@ func signedDataToProto(b) (r, err)
//@   ensures[iff] err == nil <==> sdWF(seq(b))
//@   ensures[fields] err == nil ==> sdFields(r, seq(b))
//@   ensures[ok] err == nil ==> sdOK(r)
//@   ensures[fresh] err == nil ==> sdFresh(r)
//@   ensures[reserialise] err == nil ==> sdBytes(r) == seq(b)

//@ func quoteToProtoV4(b) (r, err)
//@   ensures[accepts-exactly] err == nil <==> quoteWF(seq(b))
//@   ensures[fields] err == nil ==> quoteFields(r, seq(b))
//@   ensures[ok] err == nil ==> quoteOK(r)
//@   ensures[fresh] err == nil ==> quoteFresh(r)
//@   ensures[reserialise] err == nil ==> quoteBytes(r) == seq(b)

//@ func QuoteToProto(b) (q, err)
//@   ensures[accepts-exactly] err == nil <==> quoteWF(seq(b))
//@   ensures[type] err == nil ==> typeis(q, "*tdx.QuoteV4")
//@   ensures[fields] err == nil ==> quoteFields(as(q, "*tdx.QuoteV4"), seq(b))
//@   ensures[ok] err == nil ==> quoteOK(as(q, "*tdx.QuoteV4"))
//@   ensures[fresh] err == nil ==> quoteFresh(as(q, "*tdx.QuoteV4"))
//@   ensures[reserialise] err == nil ==> quoteBytes(as(q, "*tdx.QuoteV4")) == seq(b)

// SignatureToDER builds the ASN.1 SEQUENCE { INTEGER r, INTEGER s } with
// golang.org/x/crypto/cryptobyte.  The body is verified: the continuation
// passed to AddASN1 is executed on a child builder; only the builder's own
// operations (AddASN1BigInt, the TLV wrapping, Bytes) are assumed contracts.
//@ func SignatureToDER(x) (r, err)
//@   ensures[iff] err == nil <==> len(x) == 64
//@   ensures[der] err == nil ==> seq(r) == derSig(seq(x)[0:32], seq(x)[32:64])
//@   fresh r
