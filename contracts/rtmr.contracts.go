//go:build verif

package rtmr

// Contracts for /verif (govc).  No code here.
// Inside before(rec, E) / after(rec, E) the callee's parameter names shadow
// the enclosing function's; the latter stay reachable as outer_<name>.

//@ func ExtendDigestClient(client, rtmrIndex, digest) (err)
//@   ensures[reject] rtmrIndex < 0 || rtmrIndex > 3 || len(digest) != 48 ==> err != nil && !extend[0].happened
//@   ensures[one-extend] 0 <= rtmrIndex && rtmrIndex <= 3 && len(digest) == 48 ==> extend[0].happened && !extend[1].happened
//@ |       && before(extend[0], rtmr == rtmrIndex && digest == outer_digest && client == outer_client) && err == after(extend[0], err)

//@ func ExtendEventLogClient(client, rtmrIndex, hashAlgo, eventLog) (err)
//@   inlines ExtendDigestClient
//@   ensures[reject] hashAlgo != 6 || len(eventLog) == 0 || rtmrIndex < 0 || rtmrIndex > 3 ==> err != nil && !extend[0].happened
//@   ensures[one-extend] hashAlgo == 6 && len(eventLog) > 0 && 0 <= rtmrIndex && rtmrIndex <= 3 ==> extend[0].happened && !extend[1].happened
//@ |       && before(extend[0], rtmr == rtmrIndex && len(digest) == 48 && seq(digest) == SHA384(seq(eventLog)) && client == outer_client)
//@ |       && err == after(extend[0], err)

//@ func ExtendEventLog(rtmrIndex, hashAlgo, eventLog) (err)
//@   inlines ExtendEventLogClient, ExtendDigestClient
//@   ensures[reject] hashAlgo != 6 || len(eventLog) == 0 || rtmrIndex < 0 || rtmrIndex > 3 ==> err != nil && !extend[0].happened
//@   ensures[at-most-one] !extend[1].happened

//@ func ExtendDigest(rtmrIndex, digest) (err)
//@   inlines ExtendDigestClient
//@   ensures[reject] rtmrIndex < 0 || rtmrIndex > 3 || len(digest) != 48 ==> err != nil && !extend[0].happened
//@   ensures[at-most-one] !extend[1].happened

// ---- CCEL replay behind both gates (C18) ----

// nil-safe reading of the RTMR list (what the generated getters do)
//@ define rtmrsOf(q) = ite(q != nil && q.TdQuoteBody != nil, q.TdQuoteBody.Rtmrs, nil)

//@ define bankOf(bank, rtmrs) = len(bank.RTMRs) == len(rtmrs) && (forall j :: 0 <= j && j < len(rtmrs) ==> bank.RTMRs[j].Index == j && bank.RTMRs[j].Digest == rtmrs[j])

//@ func getRtmrsFromTdQuoteV4(quote) (r, err)
//@   ensures[bank] err == nil ==> r != nil && bankOf(r, rtmrsOf(quote)) && len(rtmrsOf(quote)) <= 4
//@   ensures[too-many] len(rtmrsOf(quote)) > 4 ==> err != nil
//@   loop 0: unroll 5

//@ func GetRtmrsFromTdQuote(quote) (r, err)
//@   ensures[bank] err == nil ==> typeis(quote, "*tdx.QuoteV4") && r != nil
//@ |       && bankOf(r, rtmrsOf(as(quote, "*tdx.QuoteV4"))) && len(rtmrsOf(as(quote, "*tdx.QuoteV4"))) <= 4

//@ func TdxDefaultOpts(tdxNonce) (r)
//@   ensures[report-data] r.Validation != nil && len(r.Validation.TdQuoteBodyOptions.ReportData) == 64
//@ |       && (forall i :: 0 <= i && i < 64 ==> r.Validation.TdQuoteBodyOptions.ReportData[i] == ite(i < len(tdxNonce), tdxNonce[i], uint8(0)))
//@ |       && fresh(r.Validation.TdQuoteBodyOptions.ReportData) && r.Verification != nil

//@ func ParseCcelWithTdQuote(ccelBytes, tableBytes, tdxAttestationQuote, opts) (r, err)
//@   requires opts != nil
//@   assigns opts.Verification.chain, opts.Verification.collateral, opts.Verification.pckCertExtensions, opts.Verification.Now
//@   ensures[gates] r != nil ==> verify_tdxquote[0].happened && after(verify_tdxquote[0], err == nil)
//@ |       && validate_tdxquote[0].happened && after(validate_tdxquote[0], err == nil)
// what the two gates stand for: a log is returned only for a quote that is
// authentic under the verification options and meets the validation policy
//@   ensures[authentic] r != nil ==> typeis(tdxAttestationQuote, "*tdx.QuoteV4") && opts.Verification != nil && verdictOK(as(tdxAttestationQuote, "*tdx.QuoteV4"), opts.Verification)
//@   ensures[meets-policy] r != nil ==> typeis(tdxAttestationQuote, "*tdx.QuoteV4") && opts.Validation != nil && policyOK(as(tdxAttestationQuote, "*tdx.QuoteV4"), opts.Validation)
//@   ensures[order] (validate_tdxquote[0].happened ==> after(verify_tdxquote[0], err == nil))
//@ |       && (replay[0].happened ==> after(verify_tdxquote[0], err == nil) && after(validate_tdxquote[0], err == nil))
//@   ensures[same-quote] (verify_tdxquote[0].happened ==> before(verify_tdxquote[0], quote == tdxAttestationQuote && options == outer_opts.Verification))
//@ |       && (validate_tdxquote[0].happened ==> before(validate_tdxquote[0], quote == tdxAttestationQuote && options == outer_opts.Validation))
//@   ensures[replay] r != nil || err == nil ==> replay[0].happened && !replay[1].happened && r == after(replay[0], r) && err == after(replay[0], err)
//@ |       && typeis(tdxAttestationQuote, "*tdx.QuoteV4")
//@ |       && before(replay[0], bankOf(rtmrBank, rtmrsOf(as(outer_tdxAttestationQuote, "*tdx.QuoteV4"))) && acpiTableFile == outer_tableBytes && rawEventLog == outer_ccelBytes)
