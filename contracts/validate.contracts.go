//go:build verif

package validate

// Contracts for /verif (govc).  No code here.

// ---- option-length checks (C14) ----

//@ define lenOK(v, n) = v == nil || len(v) == n
//@ define entryLenOK(v, n) = len(v) == 0 || len(v) == n

//@ define rtmrsLenOK(r) = len(r) == 0 || (len(r) == 4 && (forall i :: 0 <= i && i < 4 ==> entryLenOK(r[i], 48)))
//@ define anyLenOK(a) = forall i :: 0 <= i && i < len(a) ==> entryLenOK(a[i], 48)

//@ define optsLenOK(o) = lenOK(o.TdQuoteBodyOptions.MrSeam, 48) && lenOK(o.TdQuoteBodyOptions.TdAttributes, 8)
//@ |   && lenOK(o.TdQuoteBodyOptions.Xfam, 8) && lenOK(o.TdQuoteBodyOptions.MrTd, 48)
//@ |   && lenOK(o.TdQuoteBodyOptions.MrConfigID, 48) && lenOK(o.TdQuoteBodyOptions.MrOwner, 48)
//@ |   && lenOK(o.TdQuoteBodyOptions.MrOwnerConfig, 48) && lenOK(o.TdQuoteBodyOptions.ReportData, 64)
//@ |   && lenOK(o.HeaderOptions.QeVendorID, 16) && lenOK(o.TdQuoteBodyOptions.MinimumTeeTcbSvn, 16)
//@ |   && rtmrsLenOK(o.TdQuoteBodyOptions.Rtmrs) && anyLenOK(o.TdQuoteBodyOptions.AnyMrTd)

//@ func lengthCheck(name, length, value) (err)
//@   ensures[iff] err == nil <==> lenOK(value, length)

//@ func lengthCheckMany(name, constraint, length, value) (err)
//@   inline

//@ func checkOptionsLengths(opts) (err)
//@   requires opts != nil
//@   ensures[iff] err == nil <==> optsLenOK(opts)

// nil-safe reading of a policy message (what the generated getters do)
//@ define hpOf(p) = ite(p != nil, p.HeaderPolicy, nil)
//@ define bpOf(p) = ite(p != nil, p.TdQuoteBodyPolicy, nil)
//@ define polQe(p) = ite(hpOf(p) != nil, hpOf(p).MinimumQeSvn, uint32(0))
//@ define polPce(p) = ite(hpOf(p) != nil, hpOf(p).MinimumPceSvn, uint32(0))

//@ define sameSlice(a, b) = a == b

//@ func PolicyToOptions(policy) (r, err)
//@   records policytooptions
//@   ensures[range] polQe(policy) > 65535 || polPce(policy) > 65535 ==> err != nil
//@   ensures[length] err == nil ==> r != nil && optsLenOK(r)
//@   ensures[map-header] err == nil ==> r.HeaderOptions.MinimumQeSvn == uint16(polQe(policy)) && r.HeaderOptions.MinimumPceSvn == uint16(polPce(policy))
//@ |     && sameSlice(r.HeaderOptions.QeVendorID, ite(hpOf(policy) != nil, hpOf(policy).QeVendorId, nil))
//@   ensures[map-body] err == nil && bpOf(policy) != nil ==>
//@ |     sameSlice(r.TdQuoteBodyOptions.MinimumTeeTcbSvn, bpOf(policy).MinimumTeeTcbSvn)
//@ |     && sameSlice(r.TdQuoteBodyOptions.MrSeam, bpOf(policy).MrSeam) && sameSlice(r.TdQuoteBodyOptions.TdAttributes, bpOf(policy).TdAttributes)
//@ |     && sameSlice(r.TdQuoteBodyOptions.Xfam, bpOf(policy).Xfam) && sameSlice(r.TdQuoteBodyOptions.MrTd, bpOf(policy).MrTd)
//@ |     && sameSlice(r.TdQuoteBodyOptions.MrConfigID, bpOf(policy).MrConfigId) && sameSlice(r.TdQuoteBodyOptions.MrOwner, bpOf(policy).MrOwner)
//@ |     && sameSlice(r.TdQuoteBodyOptions.MrOwnerConfig, bpOf(policy).MrOwnerConfig) && sameSlice(r.TdQuoteBodyOptions.Rtmrs, bpOf(policy).Rtmrs)
//@ |     && sameSlice(r.TdQuoteBodyOptions.ReportData, bpOf(policy).ReportData) && sameSlice(r.TdQuoteBodyOptions.AnyMrTd, bpOf(policy).AnyMrTd)
//@   ensures[map-body-absent] err == nil && bpOf(policy) == nil ==>
//@ |     r.TdQuoteBodyOptions.MinimumTeeTcbSvn == nil && r.TdQuoteBodyOptions.MrSeam == nil && r.TdQuoteBodyOptions.TdAttributes == nil
//@ |     && r.TdQuoteBodyOptions.Xfam == nil && r.TdQuoteBodyOptions.MrTd == nil && r.TdQuoteBodyOptions.MrConfigID == nil
//@ |     && r.TdQuoteBodyOptions.MrOwner == nil && r.TdQuoteBodyOptions.MrOwnerConfig == nil && r.TdQuoteBodyOptions.Rtmrs == nil
//@ |     && r.TdQuoteBodyOptions.ReportData == nil && r.TdQuoteBodyOptions.AnyMrTd == nil
//@   ensures[converts] polQe(policy) <= 65535 && polPce(policy) <= 65535 && (bpOf(policy) == nil || bpLenOK(bpOf(policy)))
//@ |     && (hpOf(policy) == nil || lenOK(hpOf(policy).QeVendorId, 16)) ==> err == nil

//@ define bpLenOK(b) = lenOK(b.MrSeam, 48) && lenOK(b.TdAttributes, 8) && lenOK(b.Xfam, 8) && lenOK(b.MrTd, 48)
//@ |   && lenOK(b.MrConfigId, 48) && lenOK(b.MrOwner, 48) && lenOK(b.MrOwnerConfig, 48) && lenOK(b.ReportData, 64)
//@ |   && lenOK(b.MinimumTeeTcbSvn, 16) && rtmrsLenOK(b.Rtmrs) && anyLenOK(b.AnyMrTd)

// ---- field comparison (C08) ----

// bc: one configured exact-match expectation r of width n against quote field g
//@ define bc(g, r, n) = len(r) == 0 || (len(r) == n && seq(r) == seq(g))

//@ func byteCheck(option, field, size, given, required) (err)
//@   ensures[iff] err == nil <==> bc(given, required, size)

//@ func byteCheckRtmr(size, given, required) (err)
//@   requires len(given) == 4
//@   ensures[iff] err == nil <==> len(required) == 0 || (len(required) == 4 && (forall i :: 0 <= i && i < 4 ==> bc(given[i], required[i], size)))
//@   loop 0: unroll 4

//@ func byteCheckAny(size, given, allowed) (err)
//@   ensures[iff] err == nil <==> len(allowed) == 0 || (exists i :: 0 <= i && i < len(allowed) && bc(given, allowed[i], size))

//@ define exactOK(q, o) = bc(q.TdQuoteBody.MrSeam, o.TdQuoteBodyOptions.MrSeam, 48) && bc(q.TdQuoteBody.TdAttributes, o.TdQuoteBodyOptions.TdAttributes, 8)
//@ |   && bc(q.TdQuoteBody.Xfam, o.TdQuoteBodyOptions.Xfam, 8) && bc(q.TdQuoteBody.MrTd, o.TdQuoteBodyOptions.MrTd, 48)
//@ |   && bc(q.TdQuoteBody.MrConfigId, o.TdQuoteBodyOptions.MrConfigID, 48) && bc(q.TdQuoteBody.MrOwner, o.TdQuoteBodyOptions.MrOwner, 48)
//@ |   && bc(q.TdQuoteBody.MrOwnerConfig, o.TdQuoteBodyOptions.MrOwnerConfig, 48)
//@ |   && (len(o.TdQuoteBodyOptions.Rtmrs) == 0 || (len(o.TdQuoteBodyOptions.Rtmrs) == 4
//@ |        && (forall i :: 0 <= i && i < 4 ==> bc(q.TdQuoteBody.Rtmrs[i], o.TdQuoteBodyOptions.Rtmrs[i], 48))))
//@ |   && (len(o.TdQuoteBodyOptions.AnyMrTd) == 0 || (exists i :: 0 <= i && i < len(o.TdQuoteBodyOptions.AnyMrTd)
//@ |        && bc(q.TdQuoteBody.MrTd, o.TdQuoteBodyOptions.AnyMrTd[i], 48)))
//@ |   && bc(q.TdQuoteBody.ReportData, o.TdQuoteBodyOptions.ReportData, 64) && bc(q.Header.QeVendorId, o.HeaderOptions.QeVendorID, 16)

//@ func exactByteMatch(quote, opts) (err)
//@   requires quoteOK(quote) && opts != nil
//@   ensures[iff] err == nil <==> exactOK(quote, opts)

// ---- minimum versions ----

//@ define svnGE(t, m) = len(m) == 0 || (len(m) == 16 && (forall i :: 0 <= i && i < 16 ==> t[i] >= m[i]))

//@ func isSvnHigherOrEqual(quoteSvn, optionSvn) (r)
//@   requires len(optionSvn) == 0 || len(optionSvn) == len(quoteSvn)
//@   ensures[iff] r <==> (len(optionSvn) == 0 || (forall i :: 0 <= i && i < len(quoteSvn) ==> quoteSvn[i] >= optionSvn[i]))

//@ define minOK(q, o) = svnGE(q.TdQuoteBody.TeeTcbSvn, o.TdQuoteBodyOptions.MinimumTeeTcbSvn)
//@ |   && rd16(seq(q.Header.QeSvn), 0) >= o.HeaderOptions.MinimumQeSvn && rd16(seq(q.Header.PceSvn), 0) >= o.HeaderOptions.MinimumPceSvn

//@ func minVersionCheck(quote, opts) (err)
//@   requires quoteOK(quote) && opts != nil
//@   ensures[iff] err == nil <==> minOK(quote, opts)

// ---- fixed-bit masks: literal constants of the property statement ----

//@ define maskOK(v, fixed1, fixed0) = (rd64(seq(v), 0) & fixed1) == fixed1 && (rd64(seq(v), 0) & (^fixed0)) == 0

//@ func validateXfam(value, fixed1, fixed0) (err)
//@   ensures[iff] err == nil <==> len(value) == 0 || (len(value) == 8 && maskOK(value, fixed1, fixed0))

//@ func validateTdAttributes(value, fixed1, fixed0) (err)
//@   ensures[iff] err == nil <==> len(value) == 0 || (len(value) == 8 && maskOK(value, fixed1, fixed0))

//@ define policyOK(q, o) = exactOK(q, o) && minOK(q, o)
//@ |   && maskOK(q.TdQuoteBody.Xfam, uint64(0x3), uint64(0x0006DBE7))
//@ |   && maskOK(q.TdQuoteBody.TdAttributes, uint64(0), uint64(0x8000000050000001))

//@ func tdxQuoteV4(quote, options) (err)
//@   requires options != nil
//@   ensures[exact] err == nil <==> quoteOK(quote) && policyOK(quote, options)

//@ func TdxQuote(quote, options) (err)
//@   records validate_tdxquote
//@   ensures[nil-options] options == nil ==> err != nil
//@   ensures[type] !typeis(quote, "*tdx.QuoteV4") ==> err != nil
//@   ensures[exact] options != nil && typeis(quote, "*tdx.QuoteV4") ==>
//@ |     (err == nil <==> quoteOK(as(quote, "*tdx.QuoteV4")) && policyOK(as(quote, "*tdx.QuoteV4"), options))

//@ func RawTdxQuote(raw, options) (err)
//@   ensures[gate] err == nil ==> quoteWF(seq(raw)) && options != nil
