//go:build verif

package verify

// Contracts for /verif (govc).  No code here.

// ---------------------------------------------------------------------------
// TCB evaluation (C04, C07): Intel's first-match rule, written from the
// property statement.

//@ func applyMask(a, b) (r)
//@   requires len(b) >= len(a)
//@   ensures[len] len(r) == len(a) && r != nil
//@   ensures[and] forall i :: 0 <= i && i < len(a) ==> r[i] == a[i] & b[i]
//@   fresh r

// SGX components of the platform (from the PCK certificate) against a level
//@ opaque define cpuGE(p, comps) = len(p) == len(comps) && (forall i :: 0 <= i && i < len(p) ==> p[i] >= comps[i].Svn)

// TDX components: from index 2 when TEE_TCB_SVN[1] is non-zero, else from 0
//@ opaque define tdxGE(t, comps) = len(t) == len(comps) && (forall i :: 0 <= i && i < len(t) && (t[1] == 0 || i >= 2) ==> t[i] >= comps[i].Svn)

//@ opaque define lvlMatch(L, tee, pce, cpu) = cpuGE(cpu, L.Tcb.SgxTcbcomponents) && pce >= L.Tcb.Pcesvn && tdxGE(tee, L.Tcb.TdxTcbcomponents)

//@ func isCPUSvnHigherOrEqual(pckCertCPUSvnComponents, sgxTcbcomponents) (r)
//@   reveal cpuGE
//@   ensures[iff] r <==> cpuGE(pckCertCPUSvnComponents, sgxTcbcomponents)

//@ func isTdxTcbSvnHigherOrEqual(teeTcbSvn, tdxTcbcomponents) (r)
//@   requires len(teeTcbSvn) == 16
//@   reveal tdxGE
//@   ensures[iff] r <==> tdxGE(teeTcbSvn, tdxTcbcomponents)

//@ func getMatchingTcbLevel(tcbLevels, tdReport, pckCertPceSvn, pckCertCPUSvnComponents) (r, err)
//@   requires tdReport != nil && len(tdReport.TeeTcbSvn) == 16
//@   reveal lvlMatch
//@   ensures[first-match] err == nil ==> (exists k :: 0 <= k && k < len(tcbLevels)
//@ |       && lvlMatch(tcbLevels[k], tdReport.TeeTcbSvn, pckCertPceSvn, pckCertCPUSvnComponents)
//@ |       && (forall j :: 0 <= j && j < k ==> !lvlMatch(tcbLevels[j], tdReport.TeeTcbSvn, pckCertPceSvn, pckCertCPUSvnComponents))
//@ |       && r == tcbLevels[k])
//@   ensures[no-match] err != nil ==> (forall j :: 0 <= j && j < len(tcbLevels) ==> !lvlMatch(tcbLevels[j], tdReport.TeeTcbSvn, pckCertPceSvn, pckCertCPUSvnComponents))

// ---- QE TCB level: first level whose isvsvn is not above the report's ----

//@ func readQeTcbStatus(tcbLevels, isvsvn) (r, err)
//@   ensures[first-match] err == nil ==> (exists k :: 0 <= k && k < len(tcbLevels) && tcbLevels[k].Tcb.Isvsvn <= isvsvn
//@ |       && (forall j :: 0 <= j && j < k ==> tcbLevels[j].Tcb.Isvsvn > isvsvn) && r == tcbLevels[k])
//@   ensures[no-match] err != nil ==> (forall j :: 0 <= j && j < len(tcbLevels) ==> tcbLevels[j].Tcb.Isvsvn > isvsvn)

//@ define qeUpToDate(levels, isvsvn) = exists k :: 0 <= k && k < len(levels) && levels[k].Tcb.Isvsvn <= isvsvn
//@ |       && (forall j :: 0 <= j && j < k ==> levels[j].Tcb.Isvsvn > isvsvn) && levels[k].TcbStatus == "UpToDate"

//@ func checkQeTcbStatus(tcbLevels, isvsvn) (err)
//@   ensures[iff] err == nil <==> qeUpToDate(tcbLevels, isvsvn)

// ---- TDX module identity level (TEE_TCB_SVN[1] > 0) ----

//@ define modID(svn) = "TDX_" + hexenc(seq(svn)[1:2])
//@ define modFirst(ids, svn, m) = 0 <= m && m < len(ids) && ids[m].ID == modID(svn) && (forall j :: 0 <= j && j < m ==> ids[j].ID != modID(svn))
//@ define lvlFirst(levels, v, k) = 0 <= k && k < len(levels) && levels[k].Tcb.Isvsvn <= v && (forall j :: 0 <= j && j < k ==> levels[j].Tcb.Isvsvn > v)

//@ func getMatchingTdxModuleTcbLevel(tcbInfoTdxModuleIdentities, teeTcbSvn) (r, err)
//@   requires len(teeTcbSvn) == 16
//@   ensures[iff] err == nil <==> (exists m :: modFirst(tcbInfoTdxModuleIdentities, teeTcbSvn, m)
//@ |       && (exists k :: lvlFirst(tcbInfoTdxModuleIdentities[m].TcbLevels, uint32(teeTcbSvn[0]), k)))
//@   ensures[level] err == nil ==> r != nil && (exists m :: modFirst(tcbInfoTdxModuleIdentities, teeTcbSvn, m)
//@ |       && (exists k :: lvlFirst(tcbInfoTdxModuleIdentities[m].TcbLevels, uint32(teeTcbSvn[0]), k) && *r == tcbInfoTdxModuleIdentities[m].TcbLevels[k]))

// ---- the TCB-info verdict ----

//@ define platFirst(levels, tee, pce, cpu, k) = 0 <= k && k < len(levels) && lvlMatch(levels[k], tee, pce, cpu)
//@ |       && (forall j :: 0 <= j && j < k ==> !lvlMatch(levels[j], tee, pce, cpu))

//@ opaque define platformUpToDate(info, tee, ext) = exists k :: platFirst(info.TcbLevels, tee, ext.TCB.PCESvn, ext.TCB.CPUSvnComponents, k)
//@ |       && info.TcbLevels[k].TcbStatus == "UpToDate"

//@ opaque define moduleUpToDate(info, tee) = exists m :: modFirst(info.TdxModuleIdentities, tee, m)
//@ |       && (exists k :: lvlFirst(info.TdxModuleIdentities[m].TcbLevels, uint32(tee[0]), k) && info.TdxModuleIdentities[m].TcbLevels[k].TcbStatus == "UpToDate")

//@ func readTcbInfoTcbStatus(tcbInfo, tdQuoteBody, pckCertExtensions) (r, err)
//@   reveal platformUpToDate, moduleUpToDate
//@   requires pckCertExtensions != nil
//@   ensures[checked-size] err == nil ==> tdQuoteBody != nil && len(tdQuoteBody.TeeTcbSvn) == 16
//@   ensures[status] err == nil && r.TcbStatus == "UpToDate" ==> platformUpToDate(tcbInfo, tdQuoteBody.TeeTcbSvn, pckCertExtensions)
//@ |       && (tdQuoteBody.TeeTcbSvn[1] > 0 ==> moduleUpToDate(tcbInfo, tdQuoteBody.TeeTcbSvn))
//@   ensures[no-platform-level] (forall j :: 0 <= j && j < len(tcbInfo.TcbLevels) ==> !lvlMatch(tcbInfo.TcbLevels[j], tdQuoteBody.TeeTcbSvn, pckCertExtensions.TCB.PCESvn, pckCertExtensions.TCB.CPUSvnComponents)) ==> err != nil
//@   ensures[complete] tdQuoteBody != nil && len(tdQuoteBody.TeeTcbSvn) == 16 && platformUpToDate(tcbInfo, tdQuoteBody.TeeTcbSvn, pckCertExtensions)
//@ |       && (tdQuoteBody.TeeTcbSvn[1] > 0 ==> moduleUpToDate(tcbInfo, tdQuoteBody.TeeTcbSvn)) ==> err == nil && r.TcbStatus == "UpToDate"

//@ func checkTcbInfoTcbStatus(tcbInfo, tdQuoteBody, pckCertExtensions) (err)
//@   reveal platformUpToDate, moduleUpToDate
//@   requires tdQuoteBody != nil && len(tdQuoteBody.TeeTcbSvn) == 16 && pckCertExtensions != nil
//@   ensures[platform] err == nil ==> platformUpToDate(tcbInfo, tdQuoteBody.TeeTcbSvn, pckCertExtensions)
//@   ensures[module] err == nil && tdQuoteBody.TeeTcbSvn[1] > 0 ==> moduleUpToDate(tcbInfo, tdQuoteBody.TeeTcbSvn)
//@   ensures[complete] platformUpToDate(tcbInfo, tdQuoteBody.TeeTcbSvn, pckCertExtensions)
//@ |       && (tdQuoteBody.TeeTcbSvn[1] > 0 ==> moduleUpToDate(tcbInfo, tdQuoteBody.TeeTcbSvn)) ==> err == nil

//@ opaque define tdBodyOK(body, info, ext) = eqfold(ext.FMSPC, info.Fmspc) && ext.PCEID == info.PceID
//@ |       && seq(info.TdxModule.Mrsigner.Bytes) == seq(body.MrSignerSeam)
//@ |       && len(info.TdxModule.AttributesMask.Bytes) == len(body.SeamAttributes)
//@ |       && len(info.TdxModule.Attributes.Bytes) == len(body.SeamAttributes)
//@ |       && (forall i :: 0 <= i && i < len(body.SeamAttributes) ==> info.TdxModule.AttributesMask.Bytes[i] & body.SeamAttributes[i] == info.TdxModule.Attributes.Bytes[i])

//@ func verifyTdQuoteBody(tdQuoteBody, tdQuoteBodyOptions) (err)
//@   reveal tdBodyOK
//@   requires tdQuoteBody != nil && len(tdQuoteBody.TeeTcbSvn) == 16 && tdQuoteBodyOptions != nil && tdQuoteBodyOptions.pckCertExtensions != nil
//@   ensures[identity] err == nil ==> tdBodyOK(tdQuoteBody, tdQuoteBodyOptions.tcbInfo, tdQuoteBodyOptions.pckCertExtensions)
//@   ensures[platform] err == nil ==> platformUpToDate(tdQuoteBodyOptions.tcbInfo, tdQuoteBody.TeeTcbSvn, tdQuoteBodyOptions.pckCertExtensions)
//@   ensures[module] err == nil && tdQuoteBody.TeeTcbSvn[1] > 0 ==> moduleUpToDate(tdQuoteBodyOptions.tcbInfo, tdQuoteBody.TeeTcbSvn)
//@   ensures[complete] tdBodyOK(tdQuoteBody, tdQuoteBodyOptions.tcbInfo, tdQuoteBodyOptions.pckCertExtensions)
//@ |       && platformUpToDate(tdQuoteBodyOptions.tcbInfo, tdQuoteBody.TeeTcbSvn, tdQuoteBodyOptions.pckCertExtensions)
//@ |       && (tdQuoteBody.TeeTcbSvn[1] > 0 ==> moduleUpToDate(tdQuoteBodyOptions.tcbInfo, tdQuoteBody.TeeTcbSvn)) ==> err == nil

// ---- QE report against the QE identity (C07) ----

//@ opaque define qeIdentityOK(rep, id) = len(id.MiscselectMask.Bytes) == 4 && len(id.Miscselect.Bytes) == 4
//@ |       && (rep.MiscSelect & rd32(seq(id.MiscselectMask.Bytes), 0)) == rd32(seq(id.Miscselect.Bytes), 0)
//@ |       && len(id.AttributesMask.Bytes) == len(rep.Attributes) && len(id.Attributes.Bytes) == len(rep.Attributes)
//@ |       && (forall i :: 0 <= i && i < len(rep.Attributes) ==> id.AttributesMask.Bytes[i] & rep.Attributes[i] == id.Attributes.Bytes[i])
//@ |       && seq(id.Mrsigner.Bytes) == seq(rep.MrSigner) && rep.IsvProdId == uint32(id.IsvProdID)
//@ |       && qeUpToDate(id.TcbLevels, rep.IsvSvn)

//@ func verifyQeReport(qeReport, qeReportOptions) (err)
//@   reveal qeIdentityOK
//@   requires qeReport != nil && qeReportOptions != nil && qeReportOptions.qeIdentity != nil
//@   ensures[iff] err == nil <==> qeIdentityOK(qeReport, *qeReportOptions.qeIdentity)


// ---------------------------------------------------------------------------
// package invariant: the embedded Intel root parsed by init()
//@ invariant trustedRootCertificate != nil && certObjWF(trustedRootCertificate)

//@ errkind "*trust.AttestationRecreationErr"
//@ errkind "verify.CRLUnavailableErr"

//@ uf SHA256(ByteSeq) ByteSeq[32]

// ---------------------------------------------------------------------------
// C01: the signature chain

//@ define attKey(q) = q.SignedData.EcdsaAttestationKey
//@ define qerc(q) = q.SignedData.CertificationData.QeReportCertificationData
//@ define derOf(sig) = derSig(seq(sig)[0:32], seq(sig)[32:64])

// REPORT_DATA of the QE report binds the attestation key and the QE auth data
//@ opaque define bindOK(q) = seq(qerc(q).QeReport.ReportData) == cat(SHA256(cat(seq(attKey(q)), seq(qerc(q).QeAuthData.Data))), zeros(32))

// header || body signed by the attestation key carried in the quote
//@ opaque define quoteSigOK(q) = onCurve(256, bigOf(seq(attKey(q))[0:32]), bigOf(seq(attKey(q))[32:64]))
//@ |     && ecdsaOK(256, bigOf(seq(attKey(q))[0:32]), bigOf(seq(attKey(q))[32:64]),
//@ |               SHA256(cat(hdrBytes(q.Header), bodyBytes(q.TdQuoteBody))), derOf(q.SignedData.Signature))

// QE report signed by the PCK leaf certificate
//@ opaque define qercSigOK(d, leaf) = certSigOK(addr(leaf), 10, qerBytes(d.QeReport), derOf(d.QeReportSignature))
//@ define qeSigOK(q, leaf) = qercSigOK(qerc(q), leaf)

//@ func bytesToEcdsaPubKey(b) (r, err)
//@   ensures[iff] err == nil <==> len(b) == 64 && onCurve(256, bigOf(seq(b)[0:32]), bigOf(seq(b)[32:64]))
//@   ensures[key] err == nil ==> r != nil && r.X != nil && r.Y != nil && *r.X == bigOf(seq(b)[0:32]) && *r.Y == bigOf(seq(b)[32:64]) && addr(r.Curve) == 256

//@ func verifyHash256(quote) (err)
//@   reveal bindOK
//@   requires quoteOK(quote)
//@   ensures[iff] err == nil <==> bindOK(quote)

//@ func getHeaderAndTdQuoteBodyInAbiBytes(quote) (r, err)
//@   requires quoteOK(quote)
//@   ensures[total] err == nil
//@   ensures[layout] seq(r) == cat(hdrBytes(quote.Header), bodyBytes(quote.TdQuoteBody))

//@ func tdxQeReportSignature(qeReport, signature, pckCert) (err)
//@   requires pckCert != nil
//@   ensures[iff] err == nil <==> len(signature) == 64 && certSigOK(addr(pckCert), 10, seq(qeReport), derOf(signature))

//@ func tdxProtoQeReportSignature(qeReportCertificationData, pckCert) (err)
//@   requires pckCert != nil && qercOK(qeReportCertificationData)
//@   reveal qercSigOK
//@   ensures[iff] err == nil <==> qercSigOK(qeReportCertificationData, pckCert)

//@ define collateralChecksOK(q, o) = tdBodyOK(q.TdQuoteBody, o.collateral.TdxTcbInfo.TcbInfo, o.pckCertExtensions)
//@ |     && platformUpToDate(o.collateral.TdxTcbInfo.TcbInfo, q.TdQuoteBody.TeeTcbSvn, o.pckCertExtensions)
//@ |     && (q.TdQuoteBody.TeeTcbSvn[1] > 0 ==> moduleUpToDate(o.collateral.TdxTcbInfo.TcbInfo, q.TdQuoteBody.TeeTcbSvn))
//@ |     && qeIdentityOK(qerc(q).QeReport, o.collateral.QeIdentity.EnclaveIdentity)

//@ func verifyQuote(quote, options) (err)
//@   reveal quoteSigOK
//@   requires quoteOK(quote) && options != nil && options.chain != nil && options.chain.PCKCertificate != nil
//@   requires options.collateral != nil ==> options.pckCertExtensions != nil
//@   ensures[sig] err == nil ==> quoteSigOK(quote)
//@   ensures[qesig] err == nil ==> qeSigOK(quote, options.chain.PCKCertificate)
//@   ensures[bind] err == nil ==> bindOK(quote)
//@   ensures[collateral] err == nil && options.collateral != nil ==> collateralChecksOK(quote, options)
//@   ensures[complete] quoteSigOK(quote) && qeSigOK(quote, options.chain.PCKCertificate) && bindOK(quote)
//@ |     && (options.collateral != nil ==> collateralChecksOK(quote, options)) ==> err == nil

// ---------------------------------------------------------------------------
// C02 / C05 / C06: the PCK certificate chain

//@ define certShapeOK(c, phrase) = c.Version == 3 && c.SignatureAlgorithm == 10 && c.PublicKeyAlgorithm == 3
//@ |     && typeis(c.PublicKey, "*ecdsa.PublicKey") && curveNameOf(addr(as(c.PublicKey, "*ecdsa.PublicKey").Curve)) == "P-256"
//@ |     && c.Subject.CommonName == phrase

//@ opaque define certRoleOK(c, parent, phrase) = c != nil && parent != nil && certShapeOK(c, phrase)
//@ |     && pkixNameString(c.Issuer) == pkixNameString(parent.Subject) && issuedBy(addr(c), addr(parent))

//@ opaque define crlOK(crl, ca) = crl != nil && ca != nil && pkixNameString(crl.Issuer) == pkixNameString(ca.Subject) && crlSignedBy(addr(crl), addr(ca))

//@ opaque define notRevoked(crl, c) = forall k :: 0 <= k && k < len(crl.RevokedCertificates) ==> *crl.RevokedCertificates[k].SerialNumber != *c.SerialNumber

//@ func validateX509Cert(cert, version, signatureAlgorithm, publicKeyAlgorithm, curve) (err)
//@   requires certObjWF(cert)
//@   ensures[iff] err == nil <==> cert.Version == version && cert.SignatureAlgorithm == signatureAlgorithm && cert.PublicKeyAlgorithm == publicKeyAlgorithm
//@ |     && typeis(cert.PublicKey, "*ecdsa.PublicKey") && curveNameOf(addr(as(cert.PublicKey, "*ecdsa.PublicKey").Curve)) == curve

//@ func validateCertificate(cert, parent, phrase) (err)
//@   reveal certRoleOK
//@   requires cert != nil ==> certObjWF(cert)
//@   ensures[iff] err == nil <==> certRoleOK(cert, parent, phrase)

//@ func validateCRL(crl, trustedCertificate) (err)
//@   reveal crlOK
//@   ensures[iff] err == nil <==> crlOK(crl, trustedCertificate)

// the trust anchors actually used: the caller's pool, else the embedded Intel root
//@ define effRoots(o) = ite(o.TrustedRoots != nil, *o.TrustedRoots, poolAdd(poolEmpty(), addr(trustedRootCertificate)))

//@ func x509Options(trustedRoots, intermediateCert, now) (r)
//@   ensures[time] r.CurrentTime == now
//@   ensures[roots] r.Roots != nil && *r.Roots == ite(trustedRoots != nil, old(*trustedRoots), poolAdd(poolEmpty(), addr(trustedRootCertificate)))
//@   ensures[inter] r.Intermediates != nil && *r.Intermediates == ite(intermediateCert != nil, poolAdd(poolEmpty(), addr(intermediateCert)), poolEmpty())
//@   ensures[unchanged] trustedRoots != nil ==> *trustedRoots == old(*trustedRoots)

//@ opaque define chainNotExpired(ch, o) = !(o.Now.PckCertChain > ch.RootCertificate.NotAfter) && !(o.Now.PckCertChain > ch.IntermediateCertificate.NotAfter)
//@ |     && !(o.Now.PckCertChain > ch.PCKCertificate.NotAfter)

//@ func checkCertificateExpiration(chain, options) (err)
//@   reveal chainNotExpired
//@   requires chain != nil && chain.RootCertificate != nil && chain.IntermediateCertificate != nil && chain.PCKCertificate != nil && options != nil && options.Now != nil
//@   ensures[iff] err == nil <==> chainNotExpired(chain, options)

//@ define chainRolesOK(ch) = certRoleOK(ch.RootCertificate, ch.RootCertificate, "Intel SGX Root CA")
//@ |     && certRoleOK(ch.IntermediateCertificate, ch.RootCertificate, "Intel SGX PCK Platform CA")
//@ |     && certRoleOK(ch.PCKCertificate, ch.IntermediateCertificate, "Intel SGX PCK Certificate")

//@ define chainAnchored(ch, o) = x509Valid(addr(ch.PCKCertificate), effRoots(o), poolAdd(poolEmpty(), addr(ch.IntermediateCertificate)), o.Now.PckCertChain)

//@ define chainRevocationOK(ch, coll) = crlOK(coll.RootCaCrl, ch.RootCertificate) && crlOK(coll.PckCrl, ch.IntermediateCertificate)
//@ |     && pkixNameString(coll.PckCrl.Issuer) == pkixNameString(ch.PCKCertificate.Issuer)
//@ |     && notRevoked(coll.RootCaCrl, ch.IntermediateCertificate) && notRevoked(coll.PckCrl, ch.PCKCertificate)

//@ opaque define pckChainOK(o) = chainRolesOK(o.chain) && chainAnchored(o.chain, o) && chainNotExpired(o.chain, o)
//@ |     && (o.CheckRevocations ==> o.GetCollateral && chainRevocationOK(o.chain, o.collateral))

//@ define chainWFin(ch) = ch != nil && (ch.RootCertificate != nil ==> certObjWF(ch.RootCertificate))
//@ |     && (ch.IntermediateCertificate != nil ==> certObjWF(ch.IntermediateCertificate)) && (ch.PCKCertificate != nil ==> certObjWF(ch.PCKCertificate))
//@ define collWFin(coll) = (coll.RootCaCrl != nil ==> crlObjWF(coll.RootCaCrl)) && (coll.PckCrl != nil ==> crlObjWF(coll.PckCrl))
//@ |     && (coll.TcbInfoIssuerRootCertificate != nil ==> certObjWF(coll.TcbInfoIssuerRootCertificate))
//@ |     && (coll.TcbInfoIssuerIntermediateCertificate != nil ==> certObjWF(coll.TcbInfoIssuerIntermediateCertificate))
//@ |     && (coll.QeIdentityIssuerRootCertificate != nil ==> certObjWF(coll.QeIdentityIssuerRootCertificate))
//@ |     && (coll.QeIdentityIssuerIntermediateCertificate != nil ==> certObjWF(coll.QeIdentityIssuerIntermediateCertificate))
//@ |     && (coll.PckCrlIssuerRootCertificate != nil ==> certObjWF(coll.PckCrlIssuerRootCertificate))
//@ |     && (coll.PckCrlIssuerIntermediateCertificate != nil ==> certObjWF(coll.PckCrlIssuerIntermediateCertificate))

//@ func verifyPCKCertificationChain(options) (err)
//@   reveal pckChainOK, notRevoked, crlOK
//@   requires options != nil && options.Now != nil && chainWFin(options.chain)
//@   requires options.CheckRevocations && options.GetCollateral ==> options.collateral != nil && collWFin(options.collateral)
//@   ensures[accept] err == nil ==> pckChainOK(options)
//@   ensures[conflict] options.CheckRevocations && !options.GetCollateral ==> err != nil
//@   ensures[complete] options.chain.RootCertificate != nil && options.chain.IntermediateCertificate != nil && options.chain.PCKCertificate != nil
//@ |     && pckChainOK(options) ==> err == nil

// the three PEM blocks of the chain carried in the quote
//@ opaque define chainBlocks(ch, cb) = pemOK(cb) && pemType(cb) == "CERTIFICATE" && certParses(pemBytes(cb)) && addr(ch.PCKCertificate) == parseCert(pemBytes(cb))
//@ |     && pemOK(pemRest(cb)) && pemType(pemRest(cb)) == "CERTIFICATE" && certParses(pemBytes(pemRest(cb)))
//@ |     && addr(ch.IntermediateCertificate) == parseCert(pemBytes(pemRest(cb)))
//@ |     && pemOK(pemRest(pemRest(cb))) && pemType(pemRest(pemRest(cb))) == "CERTIFICATE" && certParses(pemBytes(pemRest(pemRest(cb))))
//@ |     && addr(ch.RootCertificate) == parseCert(pemBytes(pemRest(pemRest(cb))))
//@ |     && len(pemRest(cb)) > 0 && len(pemRest(pemRest(cb))) > 0
//@ |     && (len(pemRest(pemRest(pemRest(cb)))) == 0 || (len(pemRest(pemRest(pemRest(cb)))) == 1 && pemRest(pemRest(pemRest(cb)))[0] == 0))

//@ define pckChainBytes(q) = seq(qerc(q).PckCertificateChainData.PckCertChain)

//@ func extractChainFromQuoteV4(quote) (r, err)
//@   reveal chainBlocks
//@   fresh r
//@   ensures[blocks] quoteOK(quote) && err == nil ==> r != nil && chainBlocks(r, pckChainBytes(quote))
//@   ensures[wf] err == nil ==> r != nil && certObjWF(r.PCKCertificate) && certObjWF(r.IntermediateCertificate) && certObjWF(r.RootCertificate)
//@   ensures[complete] quoteOK(quote) && qerc(quote).PckCertificateChainData.PckCertChain != nil && pemOK(pckChainBytes(quote)) && pemType(pckChainBytes(quote)) == "CERTIFICATE"
//@ |     && certParses(pemBytes(pckChainBytes(quote))) && len(pemRest(pckChainBytes(quote))) > 0
//@ |     && pemOK(pemRest(pckChainBytes(quote))) && pemType(pemRest(pckChainBytes(quote))) == "CERTIFICATE" && certParses(pemBytes(pemRest(pckChainBytes(quote))))
//@ |     && len(pemRest(pemRest(pckChainBytes(quote)))) > 0
//@ |     && pemOK(pemRest(pemRest(pckChainBytes(quote)))) && pemType(pemRest(pemRest(pckChainBytes(quote)))) == "CERTIFICATE"
//@ |     && certParses(pemBytes(pemRest(pemRest(pckChainBytes(quote)))))
//@ |     && (len(pemRest(pemRest(pemRest(pckChainBytes(quote))))) == 0 || (len(pemRest(pemRest(pemRest(pckChainBytes(quote))))) == 1 && pemRest(pemRest(pemRest(pckChainBytes(quote))))[0] == 0))
//@ |     ==> err == nil

//@ func ExtractChainFromQuote(quote) (r, err)
//@   ensures[wf] err == nil ==> r != nil && certObjWF(r.PCKCertificate) && certObjWF(r.IntermediateCertificate) && certObjWF(r.RootCertificate)

//@ func extractCaFromPckCert(pckCert) (ca, err)
//@   requires pckCert != nil
//@   ensures[platform] pckCert.Issuer.CommonName == "Intel SGX PCK Platform CA" ==> err == nil && ca == "platform"
//@   ensures[processor] pckCert.Issuer.CommonName == "Intel SGX PCK Processor CA" ==> err == nil && ca == "processor"
//@   ensures[other] pckCert.Issuer.CommonName != "Intel SGX PCK Platform CA" && pckCert.Issuer.CommonName != "Intel SGX PCK Processor CA" ==> err != nil

// ---------------------------------------------------------------------------
// C03 / C05 / C06: collateral responses

//@ opaque define responseOK(phrase, root, signer, body, sig, crl, o, t) = certRoleOK(root, root, "Intel SGX Root CA") && certRoleOK(signer, root, phrase)
//@ |     && x509Valid(addr(signer), effRoots(o), poolEmpty(), t)
//@ |     && hexOK(sig) && len(hexDecode(sig)) == 64 && certSigOK(addr(signer), 10, seq(body), derSig(hexDecode(sig)[0:32], hexDecode(sig)[32:64]))
//@ |     && (o.CheckRevocations ==> o.GetCollateral && crlOK(crl, root) && notRevoked(crl, signer))

//@ func verifyResponse(signingPhrase, rootCertificate, signingCertificate, rawBody, rawSignature, crl, options, now) (err)
//@   reveal responseOK, notRevoked, crlOK, certRoleOK
//@   requires options != nil && (rootCertificate != nil ==> certObjWF(rootCertificate)) && (signingCertificate != nil ==> certObjWF(signingCertificate)) && (crl != nil ==> crlObjWF(crl))
//@   ensures[accept] err == nil ==> responseOK(signingPhrase, rootCertificate, signingCertificate, rawBody, rawSignature, crl, options, now)
//@   ensures[conflict] options.CheckRevocations && !options.GetCollateral ==> err != nil
//@   ensures[complete] responseOK(signingPhrase, rootCertificate, signingCertificate, rawBody, rawSignature, crl, options, now) ==> err == nil

//@ opaque define tcbInfoOK(o) = o.collateral.TdxTcbInfo.TcbInfo.ID == "TDX" && o.collateral.TdxTcbInfo.TcbInfo.Version == 3 && len(o.collateral.TdxTcbInfo.TcbInfo.TcbLevels) > 0
//@ |     && responseOK("Intel SGX TCB Signing", o.collateral.TcbInfoIssuerRootCertificate, o.collateral.TcbInfoIssuerIntermediateCertificate,
//@ |          o.collateral.TcbInfoBody, o.collateral.TdxTcbInfo.Signature, o.collateral.RootCaCrl, o, o.Now.TcbInfo)

//@ opaque define qeIdentityDocOK(o) = o.collateral.QeIdentity.EnclaveIdentity.ID == "TD_QE" && o.collateral.QeIdentity.EnclaveIdentity.Version == 2
//@ |     && len(o.collateral.QeIdentity.EnclaveIdentity.TcbLevels) > 0
//@ |     && responseOK("Intel SGX TCB Signing", o.collateral.QeIdentityIssuerRootCertificate, o.collateral.QeIdentityIssuerIntermediateCertificate,
//@ |          o.collateral.EnclaveIdentityBody, o.collateral.QeIdentity.Signature, o.collateral.RootCaCrl, o, o.Now.QeIdentity)

//@ func verifyTCBinfo(options) (err)
//@   reveal tcbInfoOK
//@   requires options != nil && options.Now != nil && options.collateral != nil && collWFin(options.collateral)
//@   ensures[accept] err == nil ==> tcbInfoOK(options)
//@   ensures[complete] tcbInfoOK(options) ==> err == nil

//@ func verifyQeIdentity(options) (err)
//@   reveal qeIdentityDocOK
//@   requires options != nil && options.Now != nil && options.collateral != nil && collWFin(options.collateral)
//@   ensures[accept] err == nil ==> qeIdentityDocOK(options)
//@   ensures[complete] qeIdentityDocOK(options) ==> err == nil

//@ define collateralPresent(coll, o) = coll != nil && coll.TcbInfoBody != nil && coll.EnclaveIdentityBody != nil
//@ |     && coll.TcbInfoIssuerIntermediateCertificate != nil && coll.TcbInfoIssuerRootCertificate != nil
//@ |     && coll.QeIdentityIssuerIntermediateCertificate != nil && coll.QeIdentityIssuerRootCertificate != nil
//@ |     && (o.CheckRevocations ==> coll.PckCrl != nil && coll.RootCaCrl != nil && coll.PckCrlIssuerIntermediateCertificate != nil && coll.PckCrlIssuerRootCertificate != nil)

// every artifact judged at its own entry of the time set (C06)
//@ opaque define collateralNotExpired(coll, o) = !(o.Now.TcbInfo > coll.TdxTcbInfo.TcbInfo.NextUpdate) && !(o.Now.QeIdentity > coll.QeIdentity.EnclaveIdentity.NextUpdate)
//@ |     && !(o.Now.TcbInfo > coll.TcbInfoIssuerIntermediateCertificate.NotAfter) && !(o.Now.TcbInfo > coll.TcbInfoIssuerRootCertificate.NotAfter)
//@ |     && !(o.Now.QeIdentity > coll.QeIdentityIssuerRootCertificate.NotAfter) && !(o.Now.QeIdentity > coll.QeIdentityIssuerIntermediateCertificate.NotAfter)
//@ |     && (o.CheckRevocations ==> !(o.Now.RootCaCrl > coll.RootCaCrl.NextUpdate) && !(o.Now.PckCrl > coll.PckCrl.NextUpdate)
//@ |          && !(o.Now.PckCrl > coll.PckCrlIssuerIntermediateCertificate.NotAfter) && !(o.Now.PckCrl > coll.PckCrlIssuerRootCertificate.NotAfter))

//@ func checkCollateralExpiration(collateral, options) (err)
//@   reveal collateralNotExpired
//@   requires options != nil && options.Now != nil && collateralPresent(collateral, options)
//@   ensures[iff] err == nil <==> collateralNotExpired(collateral, options)

//@ func verifyCollateral(options) (err)
//@   requires options != nil && (options.collateral != nil ==> options.Now != nil)
//@   ensures[accept] err == nil ==> collateralPresent(options.collateral, options) && collateralNotExpired(options.collateral, options)
//@ |     && !iszero(options.collateral.TdxTcbInfo) && !iszero(options.collateral.QeIdentity)
//@   ensures[complete] collateralPresent(options.collateral, options) && collateralNotExpired(options.collateral, options)
//@ |     && !iszero(options.collateral.TdxTcbInfo) && !iszero(options.collateral.QeIdentity) ==> err == nil

//@ define collateralOK(o) = collateralPresent(o.collateral, o) && collateralNotExpired(o.collateral, o) && tcbInfoOK(o) && qeIdentityDocOK(o)

// ---------------------------------------------------------------------------
// the evidence verdict: options gate the checks exactly (C12)

//@ define evidenceOK(q, o) = q.Header.TeeType == 0x81 && pckChainOK(o) && (o.GetCollateral ==> collateralOK(o))
//@ |     && quoteSigOK(q) && qeSigOK(q, o.chain.PCKCertificate) && bindOK(q) && (o.collateral != nil ==> collateralChecksOK(q, o))

//@ func verifyEvidenceV4(quote, options) (err)
//@   requires quoteOK(quote) && options != nil && options.Now != nil && chainWFin(options.chain) && options.chain.PCKCertificate != nil
//@   requires options.GetCollateral ==> options.collateral != nil && collWFin(options.collateral)
//@   requires options.collateral != nil ==> options.pckCertExtensions != nil
//@   reveal pckChainOK, tcbInfoOK, qeIdentityDocOK, responseOK, collateralNotExpired
//@   ensures[accept] err == nil ==> evidenceOK(quote, options)
//@   ensures[gating] err == nil ==> evidenceAt(quote, options, options.GetCollateral, options.CheckRevocations)
//@   ensures[mono-revocation] err == nil ==> evidenceAt(quote, options, options.GetCollateral, false)
//@   ensures[mono-collateral] err == nil ==> evidenceAt(quote, options, false, false)
// ---- the same acceptance predicate with the two option flags as explicit
// parameters (gc = GetCollateral, cr = CheckRevocations), so that "more checking
// never accepts more" can be stated: whatever is accepted satisfies the
// predicate of every weaker setting ----
//@ define pckChainAt(o, gc, cr) = chainRolesOK(o.chain) && chainAnchored(o.chain, o) && chainNotExpired(o.chain, o)
//@ |     && (cr ==> gc && chainRevocationOK(o.chain, o.collateral))
//@ define responseAt(phrase, root, signer, body, sig, crl, o, t, gc, cr) = certRoleOK(root, root, "Intel SGX Root CA") && certRoleOK(signer, root, phrase)
//@ |     && x509Valid(addr(signer), effRoots(o), poolEmpty(), t)
//@ |     && hexOK(sig) && len(hexDecode(sig)) == 64 && certSigOK(addr(signer), 10, seq(body), derSig(hexDecode(sig)[0:32], hexDecode(sig)[32:64]))
//@ |     && (cr ==> gc && crlOK(crl, root) && notRevoked(crl, signer))
//@ define collateralAt(o, gc, cr) = o.collateral != nil && o.collateral.TcbInfoBody != nil && o.collateral.EnclaveIdentityBody != nil
//@ |     && o.collateral.TcbInfoIssuerIntermediateCertificate != nil && o.collateral.TcbInfoIssuerRootCertificate != nil
//@ |     && o.collateral.QeIdentityIssuerIntermediateCertificate != nil && o.collateral.QeIdentityIssuerRootCertificate != nil
//@ |     && (cr ==> o.collateral.PckCrl != nil && o.collateral.RootCaCrl != nil && o.collateral.PckCrlIssuerIntermediateCertificate != nil && o.collateral.PckCrlIssuerRootCertificate != nil)
//@ |     && !(o.Now.TcbInfo > o.collateral.TdxTcbInfo.TcbInfo.NextUpdate) && !(o.Now.QeIdentity > o.collateral.QeIdentity.EnclaveIdentity.NextUpdate)
//@ |     && !(o.Now.TcbInfo > o.collateral.TcbInfoIssuerIntermediateCertificate.NotAfter) && !(o.Now.TcbInfo > o.collateral.TcbInfoIssuerRootCertificate.NotAfter)
//@ |     && !(o.Now.QeIdentity > o.collateral.QeIdentityIssuerRootCertificate.NotAfter) && !(o.Now.QeIdentity > o.collateral.QeIdentityIssuerIntermediateCertificate.NotAfter)
//@ |     && (cr ==> !(o.Now.RootCaCrl > o.collateral.RootCaCrl.NextUpdate) && !(o.Now.PckCrl > o.collateral.PckCrl.NextUpdate)
//@ |          && !(o.Now.PckCrl > o.collateral.PckCrlIssuerIntermediateCertificate.NotAfter) && !(o.Now.PckCrl > o.collateral.PckCrlIssuerRootCertificate.NotAfter))
//@ |     && o.collateral.TdxTcbInfo.TcbInfo.ID == "TDX" && o.collateral.TdxTcbInfo.TcbInfo.Version == 3 && len(o.collateral.TdxTcbInfo.TcbInfo.TcbLevels) > 0
//@ |     && responseAt("Intel SGX TCB Signing", o.collateral.TcbInfoIssuerRootCertificate, o.collateral.TcbInfoIssuerIntermediateCertificate,
//@ |          o.collateral.TcbInfoBody, o.collateral.TdxTcbInfo.Signature, o.collateral.RootCaCrl, o, o.Now.TcbInfo, gc, cr)
//@ |     && o.collateral.QeIdentity.EnclaveIdentity.ID == "TD_QE" && o.collateral.QeIdentity.EnclaveIdentity.Version == 2
//@ |     && len(o.collateral.QeIdentity.EnclaveIdentity.TcbLevels) > 0
//@ |     && responseAt("Intel SGX TCB Signing", o.collateral.QeIdentityIssuerRootCertificate, o.collateral.QeIdentityIssuerIntermediateCertificate,
//@ |          o.collateral.EnclaveIdentityBody, o.collateral.QeIdentity.Signature, o.collateral.RootCaCrl, o, o.Now.QeIdentity, gc, cr)
//@ define evidenceAt(q, o, gc, cr) = q.Header.TeeType == 0x81 && pckChainAt(o, gc, cr) && (gc ==> collateralAt(o, gc, cr))
//@ |     && quoteSigOK(q) && qeSigOK(q, o.chain.PCKCertificate) && bindOK(q) && (o.collateral != nil ==> collateralChecksOK(q, o))

// without collateral checking nothing beyond the signature chain and the PCK
// chain can cause a rejection (C11, and the lower end of C12's monotonicity)
//@   ensures[complete-without-collateral] !options.GetCollateral && options.collateral == nil
//@ |     && options.chain.RootCertificate != nil && options.chain.IntermediateCertificate != nil
//@ |     && evidenceOK(quote, options) ==> err == nil
// and with it: acceptance is exactly the predicate (plus the two zero-value
// tests on the fetched documents)
//@   ensures[complete] options.chain.RootCertificate != nil && options.chain.IntermediateCertificate != nil && evidenceOK(quote, options)
//@ |     && (options.GetCollateral ==> !iszero(options.collateral.TdxTcbInfo) && !iszero(options.collateral.QeIdentity)) ==> err == nil

//@ func verifyEvidence(quote, options) (err)
//@   inline

// ---------------------------------------------------------------------------
// fetching collateral (C03 provenance, C12 fetch discipline, C19 typed errors)

//@ func headerToIssuerChain(header, phrase) (inter, root, err)
//@   ensures[certs] err == nil ==> certObjWF(inter) && certObjWF(root)
//@   ensures[chain] err == nil ==> maphas(header, phrase) && len(mapget(header, phrase)) == 1 && unescapeOK(mapget(header, phrase)[0])
//@ |     && issuerBlocks(inter, root, strbytes(unescape(mapget(header, phrase)[0])))

//@ opaque define issuerBlocks(inter, root, cb) = pemOK(cb) && pemType(cb) == "CERTIFICATE" && certParses(pemBytes(cb)) && addr(inter) == parseCert(pemBytes(cb))
//@ |     && len(pemRest(cb)) > 0 && pemOK(pemRest(cb)) && pemType(pemRest(cb)) == "CERTIFICATE" && certParses(pemBytes(pemRest(cb)))
//@ |     && addr(root) == parseCert(pemBytes(pemRest(cb))) && len(pemRest(pemRest(cb))) == 0

//@ func bodyToCrl(body) (crl, err)
//@   ensures[iff] err == nil <==> crlParses(seq(body))
//@   ensures[crl] err == nil ==> crl != nil && addr(crl) == parseCRL(seq(body)) && crlObjWF(crl)
//@   ensures[nil] err != nil ==> crl == nil

//@ func bodyToRawMessage(name, body) (r, err)
//@   ensures[member] err == nil ==> len(body) > 0 && jsonhas(seq(body), name) && r == jsonmember(seq(body), name)

//@ func getTcbInfo(fmspc, getter, collateral) (err)
//@   emits get 1
//@   requires getter != nil && collateral != nil
//@   assigns collateral.TcbInfoIssuerIntermediateCertificate, collateral.TcbInfoIssuerRootCertificate, collateral.TdxTcbInfo, collateral.TcbInfoBody
//@   ensures[one-fetch] get[0].happened && !get[1].happened && before(get[0], url) == call("pcs.TcbInfoURL", fmspc)
//@   ensures[certs] err == nil ==> certObjWF(collateral.TcbInfoIssuerIntermediateCertificate) && certObjWF(collateral.TcbInfoIssuerRootCertificate)
//@   ensures[signed-member] err == nil ==> collateral.TcbInfoBody == jsonmember(after(get[0], seq(body)), "tcbInfo")
//@   ensures[provenance] err == nil ==> collateral.TdxTcbInfo.TcbInfo == jsondecode("pcs.TcbInfo", seq(collateral.TcbInfoBody))
//@   ensures[typed-error] err != nil ==> errhas(err, "*trust.AttestationRecreationErr")
//@   ensures[fetch-error] after(get[0], err != nil) ==> err != nil

//@ func getQeIdentity(getter, collateral) (err)
//@   emits get 1
//@   requires getter != nil && collateral != nil
//@   assigns collateral.QeIdentityIssuerIntermediateCertificate, collateral.QeIdentityIssuerRootCertificate, collateral.QeIdentity, collateral.EnclaveIdentityBody
//@   ensures[one-fetch] get[0].happened && !get[1].happened && before(get[0], url) == call("pcs.QeIdentityURL")
//@   ensures[certs] err == nil ==> certObjWF(collateral.QeIdentityIssuerIntermediateCertificate) && certObjWF(collateral.QeIdentityIssuerRootCertificate)
//@   ensures[signed-member] err == nil ==> collateral.EnclaveIdentityBody == jsonmember(after(get[0], seq(body)), "enclaveIdentity")
//@   ensures[provenance] err == nil ==> collateral.QeIdentity.EnclaveIdentity == jsondecode("pcs.EnclaveIdentity", seq(collateral.EnclaveIdentityBody))
//@   ensures[typed-error] err != nil ==> errhas(err, "*trust.AttestationRecreationErr")
//@   ensures[fetch-error] after(get[0], err != nil) ==> err != nil

//@ func getPckCrl(ca, getter, collateral) (err)
//@   emits get 1
//@   requires getter != nil && collateral != nil
//@   assigns collateral.PckCrlIssuerIntermediateCertificate, collateral.PckCrlIssuerRootCertificate, collateral.PckCrl
//@   ensures[one-fetch] get[0].happened && !get[1].happened && before(get[0], url) == call("pcs.PckCrlURL", ca)
//@   ensures[crl] err == nil ==> collateral.PckCrl != nil && crlObjWF(collateral.PckCrl) && addr(collateral.PckCrl) == parseCRL(after(get[0], seq(body)))
//@ |     && certObjWF(collateral.PckCrlIssuerIntermediateCertificate) && certObjWF(collateral.PckCrlIssuerRootCertificate)
//@   ensures[typed-error] after(get[0], err != nil) ==> errhas(err, "verify.CRLUnavailableErr")
//@   ensures[fetch-error] after(get[0], err != nil) ==> err != nil

//@ func getRootCrl(getter, collateral) (err)
//@   requires getter != nil && collateral != nil && collateral.QeIdentityIssuerRootCertificate != nil
//@   assigns collateral.RootCaCrl
//@   ensures[crl] err == nil ==> collateral.RootCaCrl != nil && crlObjWF(collateral.RootCaCrl)
//@   ensures[typed-error] err != nil && len(collateral.QeIdentityIssuerRootCertificate.CRLDistributionPoints) > 0 ==> errhas(err, "verify.CRLUnavailableErr")
//@   ensures[no-url] len(collateral.QeIdentityIssuerRootCertificate.CRLDistributionPoints) == 0 ==> err != nil

//@ func obtainCollateral(fmspc, ca, options) (r, err)
//@   emits get 3
//@   requires options != nil
//@   ensures[urls] get[0].happened && before(get[0], url) == call("pcs.TcbInfoURL", fmspc)
//@ |     && (get[1].happened ==> before(get[1], url) == call("pcs.QeIdentityURL"))
//@ |     && (get[2].happened ==> before(get[2], url) == call("pcs.PckCrlURL", ca))
//@   ensures[crl-only-when-asked] !options.CheckRevocations ==> !get[2].happened
//@   ensures[present] err == nil ==> r != nil
//@ |     && certObjWF(r.TcbInfoIssuerIntermediateCertificate) && certObjWF(r.TcbInfoIssuerRootCertificate)
//@ |     && certObjWF(r.QeIdentityIssuerIntermediateCertificate) && certObjWF(r.QeIdentityIssuerRootCertificate)
//@ |     && (options.CheckRevocations ==> r.PckCrl != nil && crlObjWF(r.PckCrl) && r.RootCaCrl != nil && crlObjWF(r.RootCaCrl)
//@ |          && certObjWF(r.PckCrlIssuerIntermediateCertificate) && certObjWF(r.PckCrlIssuerRootCertificate))
//@   ensures[no-crl-unless-asked] err == nil && !options.CheckRevocations ==> r.PckCrl == nil && r.RootCaCrl == nil
//@ |     && r.PckCrlIssuerIntermediateCertificate == nil && r.PckCrlIssuerRootCertificate == nil
//@   ensures[provenance] err == nil ==> r.TdxTcbInfo.TcbInfo == jsondecode("pcs.TcbInfo", seq(r.TcbInfoBody))
//@ |     && r.TcbInfoBody == jsonmember(after(get[0], seq(body)), "tcbInfo")
//@ |     && r.QeIdentity.EnclaveIdentity == jsondecode("pcs.EnclaveIdentity", seq(r.EnclaveIdentityBody))
//@ |     && r.EnclaveIdentityBody == jsonmember(after(get[1], seq(body)), "enclaveIdentity")
//@   ensures[typed-error-collateral] err != nil && !get[2].happened ==> errhas(err, "*trust.AttestationRecreationErr")
//@   ensures[typed-error-crl] err != nil && get[2].happened && after(get[2], err != nil) ==> errhas(err, "verify.CRLUnavailableErr")
//@   fresh r

// ---------------------------------------------------------------------------
// top level

//@ define verdictOK(q, o) = quoteOK(q) && o.chain != nil && chainBlocks(o.chain, pckChainBytes(q)) && evidenceOK(q, o)

//@ func tdxQuoteV4(quote, options) (err)
//@   requires options != nil
//@   assigns options.chain, options.collateral, options.pckCertExtensions, options.Now
//@   ensures[accept] err == nil ==> verdictOK(quote, options)
//@   ensures[no-fetch] !options.GetCollateral ==> !get[0].happened
//@   ensures[crl-fetch-only-when-asked] !options.CheckRevocations ==> !get[2].happened
//@   ensures[tcb-request-names-fmspc] err == nil && options.GetCollateral ==> get[0].happened && before(get[0], url) == call("pcs.TcbInfoURL", options.pckCertExtensions.FMSPC)
//@   ensures[exts-of-leaf] err == nil ==> pckext[0].happened && before(pckext[0], cert) == options.chain.PCKCertificate && options.pckCertExtensions == after(pckext[0], r)
//@   ensures[history] options.Now == old(options.Now)
// the per-call state kept in the options is that of this call: nothing an
// earlier call left there survives into the verdict
//@   ensures[state-of-this-call] err == nil ==> (options.GetCollateral ==> fresh(options.collateral)) && (!options.GetCollateral ==> options.collateral == nil)
//@ |     && fresh(options.chain) && fresh(options.pckCertExtensions)
//@   ensures[typed-error-collateral] err != nil && get[0].happened && !get[2].happened && options.collateral == nil ==> errhas(err, "*trust.AttestationRecreationErr")

//@ func TdxQuote(quote, options) (err)
//@   records verify_tdxquote
//@   assigns options.chain, options.collateral, options.pckCertExtensions, options.Now
//@   ensures[nil-options] options == nil ==> err != nil
//@   ensures[type] !typeis(quote, "*tdx.QuoteV4") ==> err != nil
//@   ensures[accept] err == nil ==> options != nil && typeis(quote, "*tdx.QuoteV4") && verdictOK(as(quote, "*tdx.QuoteV4"), options)
//@   ensures[no-fetch] options != nil && !options.GetCollateral ==> !get[0].happened

//@ func RawTdxQuote(raw, options) (err)
//@   assigns options.chain, options.collateral, options.pckCertExtensions, options.Now
//@   ensures[gate] err == nil ==> quoteWF(seq(raw)) && options != nil

// A root-of-trust configuration trusts exactly the certificates it lists: the
// pool is the fold of AppendCertsFromPEM over the bundle files (in order) and
// then the inline bundles (in order), starting from the empty pool.
// poolPrefix(rot, k) is the pool after the first k bundles.
//@ uf poolPrefix(BV64, BV64) CertPool
//@ define nPaths(rot) = len(rot.CabundlePaths)
//@ define nBundles(rot) = len(rot.CabundlePaths) + len(rot.Cabundles)

//@ func getTrustedRoots(rot) (r, err)
//@   requires rot != nil
//@   assumes[pool-fold-definition] poolPrefix(addr(rot), 0) == poolEmpty()
//@ |     && (forall k :: 0 <= k && k < nPaths(rot) ==> poolPrefix(addr(rot), k + 1) == poolAddPEM(poolPrefix(addr(rot), k), fileBytes(rot.CabundlePaths[k])))
//@ |     && (forall k :: 0 <= k && k < len(rot.Cabundles) ==> poolPrefix(addr(rot), nPaths(rot) + k + 1) == poolAddPEM(poolPrefix(addr(rot), nPaths(rot) + k), strbytes(rot.Cabundles[k])))
//@   ensures[none] len(rot.CabundlePaths) == 0 && len(rot.Cabundles) == 0 ==> r == nil && err == nil
//@   ensures[fresh-pool] r != nil ==> fresh(r)
//@   ensures[configured] err == nil && nBundles(rot) > 0 ==> r != nil
//@   ensures[exact] err == nil && r != nil ==> *r == poolPrefix(addr(rot), nBundles(rot))
//@   ensures[every-bundle-has-certs] err == nil ==> (forall k :: 0 <= k && k < nPaths(rot) ==> pemHasCerts(fileBytes(rot.CabundlePaths[k])))
//@ |     && (forall k :: 0 <= k && k < len(rot.Cabundles) ==> pemHasCerts(strbytes(rot.Cabundles[k])))
//@   loop 0: invariant resultof("x509.NewCertPool") != nil && fresh(resultof("x509.NewCertPool")) && *resultof("x509.NewCertPool") == poolPrefix(addr(rot), loopindex)
//@   loop 0: invariant forall k :: 0 <= k && k < loopindex ==> pemHasCerts(fileBytes(rot.CabundlePaths[k]))
//@   loop 1: invariant resultof("x509.NewCertPool") != nil && fresh(resultof("x509.NewCertPool")) && *resultof("x509.NewCertPool") == poolPrefix(addr(rot), nPaths(rot) + loopindex)
//@   loop 1: invariant forall k :: 0 <= k && k < loopindex ==> pemHasCerts(strbytes(rot.Cabundles[k]))

//@ func RootOfTrustToOptions(rot) (r, err)
//@   records rootoftrust
//@   requires rot != nil
//@   ensures[flags] err == nil ==> r != nil && r.CheckRevocations == rot.CheckCrl && r.GetCollateral == rot.GetCollateral && r.Now == nil && r.Getter == nil
//@   ensures[embedded-root-when-unconfigured] err == nil && len(rot.CabundlePaths) == 0 && len(rot.Cabundles) == 0 ==> r.TrustedRoots == nil
//@   ensures[configured-pool] err == nil && nBundles(rot) > 0 ==> r.TrustedRoots != nil && *r.TrustedRoots == poolPrefix(addr(rot), nBundles(rot))

//@ func SupportedTcbLevelsFromCollateral(quote, options) (tcb, qe, err)
//   (options.collateral is unexported: only TdxQuote sets it, and it sets options.Now with it)
//@   requires options != nil && options.collateral != nil ==> options.Now != nil
//@   ensures[no-empty-level] err == nil && typeis(quote, "*tdx.QuoteV4") ==>
//@ |     !(forall j :: 0 <= j && j < len(options.collateral.TdxTcbInfo.TcbInfo.TcbLevels) ==> !lvlMatch(options.collateral.TdxTcbInfo.TcbInfo.TcbLevels[j],
//@ |          as(quote, "*tdx.QuoteV4").TdQuoteBody.TeeTcbSvn, options.pckCertExtensions.TCB.PCESvn, options.pckCertExtensions.TCB.CPUSvnComponents))
//@ |     && !(forall j :: 0 <= j && j < len(options.collateral.QeIdentity.EnclaveIdentity.TcbLevels) ==>
//@ |          options.collateral.QeIdentity.EnclaveIdentity.TcbLevels[j].Tcb.Isvsvn > qerc(as(quote, "*tdx.QuoteV4")).QeReport.IsvSvn)
