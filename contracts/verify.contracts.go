//go:build verif

package verify

// Contracts for /verif (govc).  No code here.

// ---------------------------------------------------------------------------
// TCB evaluation (C04, C07): Intel's first-match rule, written from the
// property statement.

//@ func applyMask(a, b) (r)
//@   requires len(b) >= len(a)
//@   ensures[len] len(r) == len(a) && r != nil
//@   ensures[and] forall i :: 0 <= i && i < len(a) ==> r[i] == a[i] & b[i]
//@   fresh r
//@   loop 0: invariant 0 <= i && i <= len(a) && len(data) == len(a)
//@   loop 0: invariant forall j :: 0 <= j && j < i ==> data[j] == a[j] & b[j]

// SGX components of the platform (from the PCK certificate) against a level
//@ opaque define cpuGE(p, comps) = len(p) == len(comps) && (forall i :: 0 <= i && i < len(p) ==> p[i] >= comps[i].Svn)

// TDX components: from index 2 when TEE_TCB_SVN[1] is non-zero, else from 0
//@ opaque define tdxGE(t, comps) = len(t) == len(comps) && (forall i :: 0 <= i && i < len(t) && (t[1] == 0 || i >= 2) ==> t[i] >= comps[i].Svn)

//@ opaque define lvlMatch(L, tee, pce, cpu) = cpuGE(cpu, L.Tcb.SgxTcbcomponents) && pce >= L.Tcb.Pcesvn && tdxGE(tee, L.Tcb.TdxTcbcomponents)

//@ func isCPUSvnHigherOrEqual(pckCertCPUSvnComponents, sgxTcbcomponents) (r)
//@   reveal cpuGE
//@   ensures[iff] r <==> cpuGE(pckCertCPUSvnComponents, sgxTcbcomponents)
//@   loop 0: invariant forall j :: 0 <= j && j <= rangeindex ==> pckCertCPUSvnComponents[j] >= sgxTcbcomponents[j].Svn

//@ func isTdxTcbSvnHigherOrEqual(teeTcbSvn, tdxTcbcomponents) (r)
//@   requires len(teeTcbSvn) == 16
//@   reveal tdxGE
//@   ensures[iff] r <==> tdxGE(teeTcbSvn, tdxTcbcomponents)
//@   loop 0: invariant start <= i && (start == 0 || start == 2) && (start == 2 <==> teeTcbSvn[1] > 0)
//@   loop 0: invariant forall j :: start <= j && j < i ==> teeTcbSvn[j] >= tdxTcbcomponents[j].Svn

//@ func getMatchingTcbLevel(tcbLevels, tdReport, pckCertPceSvn, pckCertCPUSvnComponents) (r, err)
//@   requires tdReport != nil && len(tdReport.TeeTcbSvn) == 16
//@   reveal lvlMatch
//@   ensures[first-match] err == nil ==> (exists k :: 0 <= k && k < len(tcbLevels)
//@ |       && lvlMatch(tcbLevels[k], tdReport.TeeTcbSvn, pckCertPceSvn, pckCertCPUSvnComponents)
//@ |       && (forall j :: 0 <= j && j < k ==> !lvlMatch(tcbLevels[j], tdReport.TeeTcbSvn, pckCertPceSvn, pckCertCPUSvnComponents))
//@ |       && r == tcbLevels[k])
//@   ensures[no-match] err != nil ==> (forall j :: 0 <= j && j < len(tcbLevels) ==> !lvlMatch(tcbLevels[j], tdReport.TeeTcbSvn, pckCertPceSvn, pckCertCPUSvnComponents))
//@   loop 0: invariant forall j :: 0 <= j && j <= rangeindex ==> !lvlMatch(tcbLevels[j], tdReport.TeeTcbSvn, pckCertPceSvn, pckCertCPUSvnComponents)

// ---- QE TCB level: first level whose isvsvn is not above the report's ----

//@ func readQeTcbStatus(tcbLevels, isvsvn) (r, err)
//@   ensures[first-match] err == nil ==> (exists k :: 0 <= k && k < len(tcbLevels) && tcbLevels[k].Tcb.Isvsvn <= isvsvn
//@ |       && (forall j :: 0 <= j && j < k ==> tcbLevels[j].Tcb.Isvsvn > isvsvn) && r == tcbLevels[k])
//@   ensures[no-match] err != nil ==> (forall j :: 0 <= j && j < len(tcbLevels) ==> tcbLevels[j].Tcb.Isvsvn > isvsvn)
//@   loop 0: invariant forall j :: 0 <= j && j <= rangeindex ==> tcbLevels[j].Tcb.Isvsvn > isvsvn

//@ define qeUpToDate(levels, isvsvn) = exists k :: 0 <= k && k < len(levels) && levels[k].Tcb.Isvsvn <= isvsvn
//@ |       && (forall j :: 0 <= j && j < k ==> levels[j].Tcb.Isvsvn > isvsvn) && levels[k].TcbStatus == "UpToDate"

//@ func checkQeTcbStatus(tcbLevels, isvsvn) (err)
//@   ensures[iff] err == nil <==> qeUpToDate(tcbLevels, isvsvn)

// ---- TDX module identity level (TEE_TCB_SVN[1] > 0) ----

//@ define modID(svn) = "TDX_" + hexenc(seq(svn)[1:2])
//@ define modFirst(ids, svn, m) = 0 <= m && m < len(ids) && ids[m].ID == modID(svn) && (forall j :: 0 <= j && j < m ==> ids[j].ID != modID(svn))
//@ define lvlFirst(levels, v, k) = 0 <= k && k < len(levels) && levels[k].Tcb.Isvsvn <= v && (forall j :: 0 <= j && j < k ==> levels[j].Tcb.Isvsvn > v)

//@ func getMatchingTdxModuleTcbLevel(tcbInfoTdxModuleIdentities, teeTcbSvn) (r, err)
//@   requires len(teeTcbSvn) == 16
//@   ensures[iff] err == nil <==> (exists m :: modFirst(tcbInfoTdxModuleIdentities, teeTcbSvn, m)
//@ |       && (exists k :: lvlFirst(tcbInfoTdxModuleIdentities[m].TcbLevels, uint32(teeTcbSvn[0]), k)))
//@   ensures[level] err == nil ==> r != nil && (exists m :: modFirst(tcbInfoTdxModuleIdentities, teeTcbSvn, m)
//@ |       && (exists k :: lvlFirst(tcbInfoTdxModuleIdentities[m].TcbLevels, uint32(teeTcbSvn[0]), k) && *r == tcbInfoTdxModuleIdentities[m].TcbLevels[k]))
//@   loop 0: invariant forall j :: 0 <= j && j <= rangeindex ==> tcbInfoTdxModuleIdentities[j].ID != modID(teeTcbSvn)
//@   loop 1: invariant forall j :: 0 <= j && j <= rangeindex ==> tdxModuleIdentity.TcbLevels[j].Tcb.Isvsvn > uint32(teeTcbSvn[0])

// ---- the TCB-info verdict ----

//@ define platFirst(levels, tee, pce, cpu, k) = 0 <= k && k < len(levels) && lvlMatch(levels[k], tee, pce, cpu)
//@ |       && (forall j :: 0 <= j && j < k ==> !lvlMatch(levels[j], tee, pce, cpu))

//@ define platformUpToDate(info, tee, ext) = exists k :: platFirst(info.TcbLevels, tee, ext.TCB.PCESvn, ext.TCB.CPUSvnComponents, k)
//@ |       && info.TcbLevels[k].TcbStatus == "UpToDate"

//@ define moduleUpToDate(info, tee) = exists m :: modFirst(info.TdxModuleIdentities, tee, m)
//@ |       && (exists k :: lvlFirst(info.TdxModuleIdentities[m].TcbLevels, uint32(tee[0]), k) && info.TdxModuleIdentities[m].TcbLevels[k].TcbStatus == "UpToDate")

//@ func readTcbInfoTcbStatus(tcbInfo, tdQuoteBody, pckCertExtensions) (r, err)
//@   requires tdQuoteBody != nil && len(tdQuoteBody.TeeTcbSvn) == 16 && pckCertExtensions != nil
//@   ensures[status] err == nil && r.TcbStatus == "UpToDate" ==> platformUpToDate(tcbInfo, tdQuoteBody.TeeTcbSvn, pckCertExtensions)
//@ |       && (tdQuoteBody.TeeTcbSvn[1] > 0 ==> moduleUpToDate(tcbInfo, tdQuoteBody.TeeTcbSvn))
//@   ensures[no-platform-level] (forall j :: 0 <= j && j < len(tcbInfo.TcbLevels) ==> !lvlMatch(tcbInfo.TcbLevels[j], tdQuoteBody.TeeTcbSvn, pckCertExtensions.TCB.PCESvn, pckCertExtensions.TCB.CPUSvnComponents)) ==> err != nil

//@ func checkTcbInfoTcbStatus(tcbInfo, tdQuoteBody, pckCertExtensions) (err)
//@   requires tdQuoteBody != nil && len(tdQuoteBody.TeeTcbSvn) == 16 && pckCertExtensions != nil
//@   ensures[platform] err == nil ==> platformUpToDate(tcbInfo, tdQuoteBody.TeeTcbSvn, pckCertExtensions)
//@   ensures[module] err == nil && tdQuoteBody.TeeTcbSvn[1] > 0 ==> moduleUpToDate(tcbInfo, tdQuoteBody.TeeTcbSvn)

//@ define tdBodyOK(body, info, ext) = eqfold(ext.FMSPC, info.Fmspc) && ext.PCEID == info.PceID
//@ |       && seq(info.TdxModule.Mrsigner.Bytes) == seq(body.MrSignerSeam)
//@ |       && len(info.TdxModule.AttributesMask.Bytes) == len(body.SeamAttributes)
//@ |       && len(info.TdxModule.Attributes.Bytes) == len(body.SeamAttributes)
//@ |       && (forall i :: 0 <= i && i < len(body.SeamAttributes) ==> info.TdxModule.AttributesMask.Bytes[i] & body.SeamAttributes[i] == info.TdxModule.Attributes.Bytes[i])

//@ func verifyTdQuoteBody(tdQuoteBody, tdQuoteBodyOptions) (err)
//@   requires tdQuoteBody != nil && len(tdQuoteBody.TeeTcbSvn) == 16 && tdQuoteBodyOptions != nil && tdQuoteBodyOptions.pckCertExtensions != nil
//@   ensures[identity] err == nil ==> tdBodyOK(tdQuoteBody, tdQuoteBodyOptions.tcbInfo, tdQuoteBodyOptions.pckCertExtensions)
//@   ensures[platform] err == nil ==> platformUpToDate(tdQuoteBodyOptions.tcbInfo, tdQuoteBody.TeeTcbSvn, tdQuoteBodyOptions.pckCertExtensions)
//@   ensures[module] err == nil && tdQuoteBody.TeeTcbSvn[1] > 0 ==> moduleUpToDate(tdQuoteBodyOptions.tcbInfo, tdQuoteBody.TeeTcbSvn)

// ---- QE report against the QE identity (C07) ----

//@ define qeIdentityOK(rep, id) = len(id.MiscselectMask.Bytes) == 4 && len(id.Miscselect.Bytes) == 4
//@ |       && (rep.MiscSelect & rd32(seq(id.MiscselectMask.Bytes), 0)) == rd32(seq(id.Miscselect.Bytes), 0)
//@ |       && len(id.AttributesMask.Bytes) == len(rep.Attributes) && len(id.Attributes.Bytes) == len(rep.Attributes)
//@ |       && (forall i :: 0 <= i && i < len(rep.Attributes) ==> id.AttributesMask.Bytes[i] & rep.Attributes[i] == id.Attributes.Bytes[i])
//@ |       && seq(id.Mrsigner.Bytes) == seq(rep.MrSigner) && rep.IsvProdId == uint32(id.IsvProdID)
//@ |       && qeUpToDate(id.TcbLevels, rep.IsvSvn)

//@ func verifyQeReport(qeReport, qeReportOptions) (err)
//@   requires qeReport != nil && qeReportOptions != nil && qeReportOptions.qeIdentity != nil
//@   ensures[iff] err == nil <==> qeIdentityOK(qeReport, qeReportOptions.qeIdentity)

// ---------------------------------------------------------------------------
// top-level entry point (contract extended in the sections below)

//@ func TdxQuote(quote, options) (err)
//@   records verify_tdxquote
//@   assigns options.chain, options.collateral, options.pckCertExtensions, options.Now
