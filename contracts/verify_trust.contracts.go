//go:build verif

package trust

// Contracts for /verif (govc).  No code here.
//
// Ghost clock (assumed semantics of context.WithTimeout / time.After / select,
// see externals.spec and DESIGN.md C20): `now` advances by an arbitrary amount
// >= 0 during every wrapped Get, `deadline` = now at entry + Timeout; a wait of
// d > 0 ends at now+d (timer) or at the deadline, whichever comes first.

//@ func (*RetryHTTPSGetter).Get(n, url) (header, body, err)
//@   requires n != nil && n.Getter != nil
//@   requires 0 < n.MaxRetryDelay && n.MaxRetryDelay < 0x2000000000000000 && 0 <= n.Timeout && n.Timeout < 0x2000000000000000
//@   ghost successes = 0
//@   ghost attempts = 0
//@   ghost lastreturn = 0
//@   at After: requires[wait-bound] arg0 > 0 && arg0 <= n.MaxRetryDelay
//@   loop 0: invariant 0 < loopvar("time.Duration") && (loopvar("time.Duration") == 2000000000 || loopvar("time.Duration") <= n.MaxRetryDelay) && successes == 0 && 0 <= now && now <= 0x4000000000000000 && deadline <= 0x4000000000000000
//@   ensures[first-success] err == nil ==> successes == 1 && get[0].happened && !get[1].happened && after(get[0], err == nil)
//@ |       && header == after(get[0], header) && body == after(get[0], body)
//@   ensures[failure] err != nil ==> successes == 0 && header == nil && body == nil
//@   ensures[deadline] err != nil ==> now <= ite(deadline > lastreturn, deadline, lastreturn)
