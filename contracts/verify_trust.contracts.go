//go:build verif

package trust

// Contracts for /verif (govc).  No code here.
//
// Ghost clock (assumed semantics of context.WithTimeout / time.After / select,
// see externals.spec and DESIGN.md C20): time is counted from the entry of Get
// (`now` = 0); `now` advances by an arbitrary amount >= 0 during every wrapped
// Get; `deadline` = entry + Timeout is the instant the statement calls "the
// configured timeout"; a blocking select returns with an earliest-ready case
// (a timer d > 0 at now+d, <-ctx.Done() at the context's deadline).

//@ func (*RetryHTTPSGetter).Get(n, url) (header, body, err)
//@   requires n != nil && n.Getter != nil
//@   requires 0 < n.MaxRetryDelay && n.MaxRetryDelay < 0x2000000000000000 && 0 <= n.Timeout && n.Timeout < 0x2000000000000000
//@   ghost now = 0
//@   ghost deadline = n.Timeout
//@   ghost successes = 0
//@   ghost attempts = 0
//@   ghost lastreturn = 0
//@   at After: requires[wait-bound] arg0 > 0 && arg0 <= n.MaxRetryDelay
//@   at HTTPSGetter.Get: requires[no-attempt-after-deadline] now <= deadline
//@   loop 0: invariant 0 < loopvar("time.Duration") && (loopvar("time.Duration") == 2000000000 || loopvar("time.Duration") <= n.MaxRetryDelay)
//@   loop 0: invariant successes == 0 && 0 <= now && now <= deadline && ctxdeadline == deadline
//@   ensures[first-success] err == nil ==> successes == 1 && get[0].happened && !get[1].happened && after(get[0], err == nil)
//@ |       && header == after(get[0], header) && body == after(get[0], body)
//@   ensures[failure] err != nil ==> successes == 0 && header == nil && body == nil
//@   ensures[deadline] err != nil ==> now <= ite(deadline > lastreturn, deadline, lastreturn)
