//go:build verif

package client

// Contracts for /verif (govc).  No code here.
// ioctl numbers are the Linux ABI values: _IOWR('T', 1, struct tdx_report_req
// /* 1088 bytes */) and _IOWR('T', 2, struct tdx_quote_req /* 16 bytes */).

//@ const IOC_GET_REPORT = 0xC4405401
//@ const IOC_GET_QUOTE = 0xC0105402

//@ define reportReq(argument) = as(argument, "*linuxabi.TdxReportReq")
//@ define quoteReq(argument) = as(argument, "*linuxabi.TdxQuoteReq")
//@ define quoteHdr(argument) = as(quoteReq(argument).Buffer, "*linuxabi.TdxQuoteHdr")

//@ func getReport(d, reportData) (r, err)
//@   inline

//@ func getRawQuoteViaDevice(d, reportData) (r, err)
//@   records viadevice
//@   requires d != nil
//@   ensures[relay-in] ioctl[0].happened && before(ioctl[0], command == IOC_GET_REPORT && typeis(argument, "*linuxabi.TdxReportReq")
//@ |       && seq(reportReq(argument).ReportData) == seq(reportData))
//@   ensures[relay-report] ioctl[1].happened ==> before(ioctl[1], command == IOC_GET_QUOTE && typeis(argument, "*linuxabi.TdxQuoteReq")
//@ |       && typeis(quoteReq(argument).Buffer, "*linuxabi.TdxQuoteHdr") && quoteReq(argument).Length == 16384
//@ |       && quoteHdr(argument).InLen == 1024 && quoteHdr(argument).Status == 0 && quoteHdr(argument).Version == 1
//@ |       && seq(quoteHdr(argument).Data)[0:1024] == after(ioctl[0], seq(reportReq(argument).TdReport)))
//@   ensures[no-third-call] !ioctl[2].happened
//@   ensures[ok] err == nil <==> ioctl[1].happened && after(ioctl[0], err == nil && res == 0)
//@ |       && after(ioctl[1], err == nil && res == 0 && quoteHdr(argument).Status == 0
//@ |            && quoteHdr(argument).OutLen > 0 && quoteHdr(argument).OutLen <= 16384)
//@   ensures[data] err == nil ==> seq(r) == after(ioctl[1], seq(quoteHdr(argument).Data)[0:int(quoteHdr(argument).OutLen)])

//@ func getRawQuoteViaProvider(qp, reportData) (r, err)
//@   requires qp != nil
//@   ensures[asks-support] issupported[0].happened
//@   ensures[verbatim] after(issupported[0], err == nil) ==> getrawquote[0].happened
//@ |       && r == after(getrawquote[0], r) && err == after(getrawquote[0], err) && !ioctl[0].happened
//@   ensures[provider-input] getrawquote[0].happened ==> before(getrawquote[0], seq(reportData) == seq(outer_reportData))
//@   ensures[no-provider-call] after(issupported[0], err != nil) ==> !getrawquote[0].happened
// the device fallback relays what the device path returned: closing the device
// afterwards changes neither the bytes nor the error
//@   ensures[fallback-relays] viadevice[0].happened ==> after(issupported[0], err != nil) && r == after(viadevice[0], r) && err == after(viadevice[0], err)
//@   ensures[fallback-error] after(issupported[0], err != nil) && !viadevice[0].happened ==> err != nil

//@ func fallbackToDeviceForRawQuote(reportData) (r, err)
//@   inline

//@ func GetRawQuote(quoteProvider, reportData) (r, err)
//@   records getrawquote_api

//@ func GetQuote(quoteProvider, reportData) (q, err)
//@   ensures[parsed] err == nil ==> getrawquote_api[0].happened && after(getrawquote_api[0], err == nil)
//@ |       && typeis(q, "*tdx.QuoteV4") && quoteFields(as(q, "*tdx.QuoteV4"), after(getrawquote_api[0], seq(r)))
//@   ensures[errors] getrawquote_api[0].happened && after(getrawquote_api[0], err != nil) ==> err != nil
