//go:build verif

package pcs

// Contracts for /verif (govc).  No code here.

// package invariant: the OID prefix literal has no spare capacity (so that
// append(prefix, i) allocates) and the well-known OIDs are as declared.
//@ invariant cap(sgxTcbComponentOidPrefix) == len(sgxTcbComponentOidPrefix) && len(sgxTcbComponentOidPrefix) == 8

//@ func sgxTcbComponentOid(component) (r)
//@   ensures[oid] len(r) == 9 && r[8] == component && (forall i :: 0 <= i && i < 8 ==> r[i] == sgxTcbComponentOidPrefix[i])
//@   fresh r

//@ func asn1U8(ext, field, out) (err)
//@   requires out != nil
//@   assigns *out
//@   ensures[iff] err == nil <==> ext != nil && typeis(ext.Value, "int64") && 0 <= as(ext.Value, "int64") && as(ext.Value, "int64") <= 255
//@   ensures[value] err == nil ==> *out == uint8(as(ext.Value, "int64"))
//@   ensures[untouched] err != nil ==> *out == old(*out)

//@ func asn1U16(ext, field, out) (err)
//@   requires out != nil
//@   assigns *out
//@   ensures[iff] err == nil <==> ext != nil && typeis(ext.Value, "int64") && 0 <= as(ext.Value, "int64") && as(ext.Value, "int64") <= 65535
//@   ensures[value] err == nil ==> *out == uint16(as(ext.Value, "int64"))
//@   ensures[untouched] err != nil ==> *out == old(*out)

//@ func asn1OctetString(ext, field, size) (r, err)
//@   at Unmarshal: requires[fresh-decode-target] pristine(arg1)
//@   ensures[nil] ext == nil ==> err != nil
//@   ensures[direct] ext != nil && len(ext.Value) == size ==> err == nil && r == ext.Value && seq(r) == seq(ext.Value)
//@   ensures[size] err == nil && size >= 0 ==> len(r) == size
//@   ensures[nested] ext != nil && len(ext.Value) != size && err == nil ==> seq(r) == seq(asn1decode("[]byte", seq(ext.Value)))

//@ func findMatchingExtension(extns, oid) (r, err)
//@   ensures[first] err == nil ==> r != nil && (exists k :: 0 <= k && k < len(extns) && seq(extns[k].Id) == seq(oid)
//@ |       && (forall j :: 0 <= j && j < k ==> !(seq(extns[j].Id) == seq(oid))) && seq(r.Value) == seq(extns[k].Value) && r.Value == extns[k].Value)
//@   ensures[none] err != nil ==> (forall j :: 0 <= j && j < len(extns) ==> !(seq(extns[j].Id) == seq(oid)))

// The elements of the TCB sequence as encoding/asn1 decodes them (DER decoding
// itself is trusted): element k has an OID (.Type) and a value (.Value).
//@ define tcbElem(ext, k) = asn1decode("pkix.AttributeTypeAndValue", seq(ext[k].FullBytes))
// element k is one of the sixteen component elements: its OID is the component
// prefix followed by an arc 1..16
//@ define isCompOid(ext, k) = len(tcbElem(ext, k).Type) == 9 && 1 <= tcbElem(ext, k).Type[8] && tcbElem(ext, k).Type[8] <= 16
//@ |       && (forall i :: 0 <= i && i < 8 ==> tcbElem(ext, k).Type[i] == sgxTcbComponentOidPrefix[i])
//@ define arcOf(ext, k) = tcbElem(ext, k).Type[8]
//@ define compVal(ext, k) = uint8(as(tcbElem(ext, k).Value, "int64"))
// slot arc-1 holds the value of an element at or after k with the same OID
// (with distinct OIDs, as in every certificate: exactly element k's value,
// whatever the order of the elements)
//@ define slotFrom(ext, k, n, comps) = exists k2 :: k <= k2 && k2 < n && isCompOid(ext, k2) && arcOf(ext, k2) == arcOf(ext, k)
//@ |       && comps[arcOf(ext, k) - 1] == compVal(ext, k2)

//@ func extractTcbExtension(tcbExtension, tcb) (err)
//@   requires tcb != nil
// every element is decoded into a fresh value: encoding/asn1 leaves what it does
// not decode untouched, so a reused target would carry the previous element's
// value into a wrongly typed element ("never a silently wrong value")
//@   at Unmarshal: requires[fresh-decode-target] pristine(arg1)
//@   assigns tcb.PCESvn, tcb.CPUSvn, tcb.CPUSvnComponents
//@   ensures[components] err == nil ==> len(tcb.CPUSvnComponents) == 16 && fresh(tcb.CPUSvnComponents)
//@   ensures[component-values] err == nil ==> (forall k :: 0 <= k && k < len(tcbExtension) && isCompOid(tcbExtension, k) ==>
//@ |       slotFrom(tcbExtension, k, len(tcbExtension), tcb.CPUSvnComponents))
//@   loop 0: invariant len(localof("[]byte")) == 16 && fresh(localof("[]byte"))
//@   loop 0: invariant forall k :: 0 <= k && k < loopindex && isCompOid(tcbExtension, k) ==> slotFrom(tcbExtension, k, loopindex, localof("[]byte"))

//@ func extractAsn1SequenceTcbExtension(ext) (r, err)
//@   at Unmarshal: requires[fresh-decode-target] pristine(arg1)
//@   ensures[ok] err == nil ==> r != nil && len(r.CPUSvnComponents) == 16

// An octet-string element (PPID, PCE-ID, FMSPC) as encoding/asn1 decodes its
// encoding b: a pkix.Extension whose Value holds the bytes directly (the usual
// encoding) or a nested OCTET STRING.  octHex(b, size) is the hex string that
// extraction has to return for it.
//@ define octExt(b) = asn1decode("pkix.Extension", b)
//@ define octHex(b, size) = ite(len(octExt(b).Value) == size, hexenc(seq(octExt(b).Value)), hexenc(seq(asn1decode("[]byte", seq(octExt(b).Value)))))

//@ func extractAsn1OctetStringExtension(name, extension, size) (r, err)
//@   at Unmarshal: requires[fresh-decode-target] pristine(arg1)
//@   ensures[value] err == nil ==> r == octHex(seq(extension.FullBytes), size)
//@   ensures[size] err == nil && size >= 0 ==> len(r) == 2 * size

// The elements of the SGX extension sequence as encoding/asn1 decodes them.
// No element is skipped, wherever it stands in the sequence: if an element with
// the OID of PPID / PCE-ID / FMSPC / TCB is present, the corresponding field was
// extracted from an element of the right kind - it has the size of that kind
// (hex strings of 16, 2 and 6 bytes; sixteen components), which the zero value
// a skipped element leaves behind has not, nor has the value of another kind.
// (Which bytes an octet-string element yields is the [value] clause of
// extractAsn1OctetStringExtension.)
//@ define sgxElem(exts, k) = asn1decode("pkix.AttributeTypeAndValue", seq(exts[k].FullBytes))
//@ define sgxIs(exts, k, oid) = oidEq(seq(sgxElem(exts, k).Type), seq(oid))

//@ func extractSgxExtensions(extensions) (r, err)
//@   fresh r
//@   at Unmarshal: requires[fresh-decode-target] pristine(arg1)
//@   ensures[ok] err == nil ==> r != nil && len(extensions) >= 4
//@   ensures[ppid-not-skipped] err == nil ==> (forall k :: 0 <= k && k < len(extensions) && sgxIs(extensions, k, OidPPID) ==> len(r.PPID) == 32)
//@   ensures[pceid-not-skipped] err == nil ==> (forall k :: 0 <= k && k < len(extensions) && sgxIs(extensions, k, OidPCEID) ==> len(r.PCEID) == 4)
//@   ensures[fmspc-not-skipped] err == nil ==> (forall k :: 0 <= k && k < len(extensions) && sgxIs(extensions, k, OidFMSPC) ==> len(r.FMSPC) == 12)
//@   ensures[tcb-not-skipped] err == nil ==> (forall k :: 0 <= k && k < len(extensions) && sgxIs(extensions, k, OidTCB) ==> len(r.TCB.CPUSvnComponents) == 16)
//@   loop 0: invariant localof("*PckExtensions") != nil && fresh(localof("*PckExtensions"))
//@   loop 0: invariant forall k :: 0 <= k && k < loopindex && sgxIs(extensions, k, OidPPID) ==> len(localof("*PckExtensions").PPID) == 32
//@   loop 0: invariant forall k :: 0 <= k && k < loopindex && sgxIs(extensions, k, OidPCEID) ==> len(localof("*PckExtensions").PCEID) == 4
//@   loop 0: invariant forall k :: 0 <= k && k < loopindex && sgxIs(extensions, k, OidFMSPC) ==> len(localof("*PckExtensions").FMSPC) == 12
//@   loop 0: invariant forall k :: 0 <= k && k < loopindex && sgxIs(extensions, k, OidTCB) ==> len(localof("*PckExtensions").TCB.CPUSvnComponents) == 16

//@ func PckCertificateExtensions(cert) (r, err)
//@   fresh r
//@   at Unmarshal: requires[fresh-decode-target] pristine(arg1)
//@   records pckext
//@   requires cert != nil
//@   ensures[ok] err == nil ==> r != nil && len(cert.Extensions) == 6
//@   ensures[count] len(cert.Extensions) != 6 ==> err != nil


// called by encoding/json with a non-nil receiver
//@ func (*HexBytes).UnmarshalJSON(hb, s) (err)
//@   requires hb != nil
//@   assigns hb.Bytes
//@ func (*TcbComponentStatus).UnmarshalJSON(st, s) (err)
//@   requires st != nil
//@   assigns *st
