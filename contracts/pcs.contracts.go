//go:build verif

package pcs

// Contracts for /verif (govc).  No code here.

// package invariant: the OID prefix literal has no spare capacity (so that
// append(prefix, i) allocates) and the well-known OIDs are as declared.
//@ invariant cap(sgxTcbComponentOidPrefix) == len(sgxTcbComponentOidPrefix) && len(sgxTcbComponentOidPrefix) == 8

//@ func sgxTcbComponentOid(component) (r)
//@   ensures[oid] len(r) == 9 && r[8] == component && (forall i :: 0 <= i && i < 8 ==> r[i] == sgxTcbComponentOidPrefix[i])
//@   fresh r

//@ func asn1U8(ext, field, out) (err)
//@   requires out != nil
//@   assigns *out
//@   ensures[iff] err == nil <==> ext != nil && typeis(ext.Value, "int64") && 0 <= as(ext.Value, "int64") && as(ext.Value, "int64") <= 255
//@   ensures[value] err == nil ==> *out == uint8(as(ext.Value, "int64"))
//@   ensures[untouched] err != nil ==> *out == old(*out)

//@ func asn1U16(ext, field, out) (err)
//@   requires out != nil
//@   assigns *out
//@   ensures[iff] err == nil <==> ext != nil && typeis(ext.Value, "int64") && 0 <= as(ext.Value, "int64") && as(ext.Value, "int64") <= 65535
//@   ensures[value] err == nil ==> *out == uint16(as(ext.Value, "int64"))
//@   ensures[untouched] err != nil ==> *out == old(*out)

//@ func asn1OctetString(ext, field, size) (r, err)
//@   at Unmarshal: requires[fresh-decode-target] pristine(arg1)
//@   ensures[nil] ext == nil ==> err != nil
//@   ensures[direct] ext != nil && len(ext.Value) == size ==> err == nil && r == ext.Value && seq(r) == seq(ext.Value)
//@   ensures[size] err == nil && size >= 0 ==> len(r) == size
//@   ensures[nested] ext != nil && len(ext.Value) != size && err == nil ==> seq(r) == seq(asn1decode("[]byte", seq(ext.Value)))

//@ func findMatchingExtension(extns, oid) (r, err)
//@   ensures[first] err == nil ==> r != nil && (exists k :: 0 <= k && k < len(extns) && seq(extns[k].Id) == seq(oid)
//@ |       && (forall j :: 0 <= j && j < k ==> !(seq(extns[j].Id) == seq(oid))) && seq(r.Value) == seq(extns[k].Value) && r.Value == extns[k].Value)
//@   ensures[none] err != nil ==> (forall j :: 0 <= j && j < len(extns) ==> !(seq(extns[j].Id) == seq(oid)))

// The elements of the TCB sequence as encoding/asn1 decodes them (DER decoding
// itself is trusted): element k has an OID (.Type) and a value (.Value).
//@ define tcbElem(ext, k) = asn1decode("pkix.AttributeTypeAndValue", seq(ext[k].FullBytes))
// element k is one of the sixteen component elements: its OID is the component
// prefix followed by an arc 1..16
//@ define isCompOid(ext, k) = len(tcbElem(ext, k).Type) == 9 && 1 <= tcbElem(ext, k).Type[8] && tcbElem(ext, k).Type[8] <= 16
//@ |       && (forall i :: 0 <= i && i < 8 ==> tcbElem(ext, k).Type[i] == sgxTcbComponentOidPrefix[i])
//@ define arcOf(ext, k) = tcbElem(ext, k).Type[8]
//@ define compVal(ext, k) = uint8(as(tcbElem(ext, k).Value, "int64"))
// slot arc-1 holds the value of an element at or after k with the same OID
// (with distinct OIDs, as in every certificate: exactly element k's value,
// whatever the order of the elements)
//@ define slotFrom(ext, k, n, comps) = exists k2 :: k <= k2 && k2 < n && isCompOid(ext, k2) && arcOf(ext, k2) == arcOf(ext, k)
//@ |       && comps[arcOf(ext, k) - 1] == compVal(ext, k2)

//@ func extractTcbExtension(tcbExtension, tcb) (err)
//@   requires tcb != nil
// every element is decoded into a fresh value: encoding/asn1 leaves what it does
// not decode untouched, so a reused target would carry the previous element's
// value into a wrongly typed element ("never a silently wrong value")
//@   at Unmarshal: requires[fresh-decode-target] pristine(arg1)
//@   assigns tcb.PCESvn, tcb.CPUSvn, tcb.CPUSvnComponents
//@   ensures[components] err == nil ==> len(tcb.CPUSvnComponents) == 16 && fresh(tcb.CPUSvnComponents)
//@   ensures[component-values] err == nil ==> (forall k :: 0 <= k && k < len(tcbExtension) && isCompOid(tcbExtension, k) ==>
//@ |       slotFrom(tcbExtension, k, len(tcbExtension), tcb.CPUSvnComponents))
//@   loop 0: invariant len(localof("[]byte")) == 16 && fresh(localof("[]byte"))
//@   loop 0: invariant forall k :: 0 <= k && k < loopindex && isCompOid(tcbExtension, k) ==> slotFrom(tcbExtension, k, loopindex, localof("[]byte"))

//@ func extractAsn1SequenceTcbExtension(ext) (r, err)
//@   at Unmarshal: requires[fresh-decode-target] pristine(arg1)
//@   ensures[ok] err == nil ==> r != nil && len(r.CPUSvnComponents) == 16

// An octet-string element (PPID, PCE-ID, FMSPC) as encoding/asn1 decodes it:
// a pkix.Extension whose Value holds the bytes directly (the usual encoding) or
// a nested OCTET STRING.  octStr(encoding, size) names the hex string that
// extraction has to return for it; its definition is the `assumes` clause below
// (a definition of a spec function, not an assumption about the code).
//@ define octExt(e) = asn1decode("pkix.Extension", seq(e.FullBytes))
//@ define octHex(e, size) = ite(len(octExt(e).Value) == size, hexenc(seq(octExt(e).Value)), hexenc(seq(asn1decode("[]byte", seq(octExt(e).Value)))))
//@ uf octStr(ByteSeq, BV64) Str

//@ func extractAsn1OctetStringExtension(name, extension, size) (r, err)
//@   at Unmarshal: requires[fresh-decode-target] pristine(arg1)
//@   assumes[octet-string-definition] octStr(seq(extension.FullBytes), size) == octHex(extension, size)
//@   ensures[value] err == nil ==> r == octStr(seq(extension.FullBytes), size)

// The elements of the SGX extension sequence as encoding/asn1 decodes them.
// Each of PPID, PCE-ID and FMSPC is taken from an element carrying its OID,
// wherever that element stands in the sequence (with distinct OIDs, as in every
// certificate: from the one element with that OID), and no element is skipped:
// if a TCB element is present its sixteen components were extracted.
//@ define sgxElem(exts, k) = asn1decode("pkix.AttributeTypeAndValue", seq(exts[k].FullBytes))
//@ define sgxIs(exts, k, oid) = oidEq(seq(sgxElem(exts, k).Type), seq(oid))
//@ define ppidFrom(exts, k, n, p) = exists k2 :: k <= k2 && k2 < n && sgxIs(exts, k2, OidPPID) && p.PPID == octStr(seq(exts[k2].FullBytes), 16)
//@ define pceidFrom(exts, k, n, p) = exists k2 :: k <= k2 && k2 < n && sgxIs(exts, k2, OidPCEID) && p.PCEID == octStr(seq(exts[k2].FullBytes), 2)
//@ define fmspcFrom(exts, k, n, p) = exists k2 :: k <= k2 && k2 < n && sgxIs(exts, k2, OidFMSPC) && p.FMSPC == octStr(seq(exts[k2].FullBytes), 6)

//@ func extractSgxExtensions(extensions) (r, err)
//@   fresh r
//@   at Unmarshal: requires[fresh-decode-target] pristine(arg1)
//@   ensures[ok] err == nil ==> r != nil && len(extensions) >= 4
//@   ensures[ppid] err == nil ==> (forall k :: 0 <= k && k < len(extensions) && sgxIs(extensions, k, OidPPID) ==> ppidFrom(extensions, k, len(extensions), r))
//@   ensures[pceid] err == nil ==> (forall k :: 0 <= k && k < len(extensions) && sgxIs(extensions, k, OidPCEID) ==> pceidFrom(extensions, k, len(extensions), r))
//@   ensures[fmspc] err == nil ==> (forall k :: 0 <= k && k < len(extensions) && sgxIs(extensions, k, OidFMSPC) ==> fmspcFrom(extensions, k, len(extensions), r))
//@   ensures[tcb-not-skipped] err == nil ==> (forall k :: 0 <= k && k < len(extensions) && sgxIs(extensions, k, OidTCB) ==> len(r.TCB.CPUSvnComponents) == 16)
//@   loop 0: invariant localof("*PckExtensions") != nil && fresh(localof("*PckExtensions"))
//@   loop 0: invariant forall k :: 0 <= k && k < loopindex && sgxIs(extensions, k, OidPPID) ==> ppidFrom(extensions, k, loopindex, localof("*PckExtensions"))
//@   loop 0: invariant forall k :: 0 <= k && k < loopindex && sgxIs(extensions, k, OidPCEID) ==> pceidFrom(extensions, k, loopindex, localof("*PckExtensions"))
//@   loop 0: invariant forall k :: 0 <= k && k < loopindex && sgxIs(extensions, k, OidFMSPC) ==> fmspcFrom(extensions, k, loopindex, localof("*PckExtensions"))
//@   loop 0: invariant forall k :: 0 <= k && k < loopindex && sgxIs(extensions, k, OidTCB) ==> len(localof("*PckExtensions").TCB.CPUSvnComponents) == 16

//@ func PckCertificateExtensions(cert) (r, err)
//@   fresh r
//@   at Unmarshal: requires[fresh-decode-target] pristine(arg1)
//@   records pckext
//@   requires cert != nil
//@   ensures[ok] err == nil ==> r != nil && len(cert.Extensions) == 6
//@   ensures[count] len(cert.Extensions) != 6 ==> err != nil


// called by encoding/json with a non-nil receiver
//@ func (*HexBytes).UnmarshalJSON(hb, s) (err)
//@   requires hb != nil
//@   assigns hb.Bytes
//@ func (*TcbComponentStatus).UnmarshalJSON(st, s) (err)
//@   requires st != nil
//@   assigns *st
