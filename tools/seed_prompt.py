#!/usr/bin/env python3
"""Prints the prompt given to an independent seeding sub-agent (round 2).
usage: seed_prompt.py Cxx "<focus hint>" """
import sys, json
pid, hint = sys.argv[1], sys.argv[2]
p = None
for l in open('/verif/properties.jsonl'):
    q = json.loads(l)
    if q['id'] == pid: p = q
import os
R = os.environ.get("SEED_ROOT","/tmp/seed7")
d = f"{R}/{pid}"
print(f"""You are helping test a verification framework by producing a realistic, subtle bug ("seeded change") in a Go program. Work ONLY inside the git worktree {d} (a checkout of the Go module github.com/google/go-tdx-guest). Do not read or write anything under /verif or /repo. There is no network; use these env vars for every go command: `export GOFLAGS=-mod=mod GOPROXY=off GOSUMDB=off GOTOOLCHAIN=local`. IMPORTANT: do NOT use `git stash` and do NOT commit; to test the original code use `git diff > {R}/{pid}.my.diff; git apply -R {R}/{pid}.my.diff; ...run...; git apply {R}/{pid}.my.diff`.

The property the program is supposed to satisfy — the full statement (JSON, with the code anchors and the reason the existing tests cannot settle it) is in {R}/{pid}.prop.txt; read it first. Title: {pid}: {p['title']}.

Your task: make ONE small change to the source (non-test .go files only) that BREAKS this property while:
 1. the code still compiles (`go build ./...`),
 2. the ENTIRE existing test suite still passes unchanged (`go test -count=1 ./...`) — do not edit existing tests (read them to see what they cover),
 3. the breakage needs something specific to manifest — a particular input, configuration, ordering or history that the existing tests do not exercise. It should look like a plausible slip a maintainer could make in a refactoring, optimisation or "clean-up" — not sabotage, not a commented-out check with a TODO.
Preferred area for this round (use it if you can find a good change there, otherwise anything in the anchored code): {hint}

Then write a demonstration: a NEW Go test file in the worktree (name it seeded_demo_test.go in the relevant package, using the package's existing test helpers/testdata where useful) with a test that FAILS with your change and PASSES on the original code. Verify both, and verify that the whole existing suite passes with the change when the demo file is absent.

Deliver inside {d}: the source change left applied (uncommitted), the demo test file, and SEED_NOTES.md (what you changed, why it breaks the property, what is needed to manifest, exact commands and results). Finally run `git -C {d} diff > {R}/{pid}.patch.diff` (the diff must contain only the source change, not the new untracked files).

Report back briefly: file(s)/function changed, the condition needed to manifest, and confirmation of the fail/pass runs.""")
