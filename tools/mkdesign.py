#!/usr/bin/env python3
"""Assembles /verif/DESIGN.md from notes/design_head.draft.md and
notes/design_tail.draft.md, filling the seeded-change table (section 6) from
seeded/*/meta.json + selftest/results.json and the benign-corpus result."""
import subprocess, os
os.chdir('/verif')
head = open('notes/design_head.draft.md').read()
tail = open('notes/design_tail.draft.md').read()
table = subprocess.run(['python3','tools/seedtable.py'],capture_output=True,text=True).stdout
benign = ''
if os.path.exists('benign/results.txt'):
    benign = "\nHarmless-change corpus, last run (`benign/results.txt`):\n\n```\n" + open('benign/results.txt').read().strip() + "\n```\n"
tail = tail.replace('@@SEEDTABLE@@', table + benign)
import json
tot=0; bys={}
for i in range(1,21):
    pid=f'C{i:02d}'
    c=json.load(open(f'evidence/{pid}.json'))['coverage']
    head=head.replace(f'@@{pid}fn@@',str(len(c.get('functions_under_contract',[])))).replace(f'@@{pid}obl@@',str(c['obligations'])).replace(f'@@{pid}sites@@',str(c.get('write_sites_examined',0)))
    tot+=c['obligations']
    for k,v in c.get('by_solver',{}).items(): bys[k]=bys.get(k,0)+v
head=head.replace('@@TOTALobl@@',str(tot)).replace('@@BYSOLVER@@',', '.join(f'{k} {v}' for k,v in sorted(bys.items(),key=lambda x:-x[1])))
open('DESIGN.md','w').write(head + tail)
print(len((head+tail).splitlines()), 'lines')
