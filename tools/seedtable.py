#!/usr/bin/env python3
"""Prints the markdown table of seeded changes / canaries for DESIGN.md section 6
from seeded/*/meta.json and selftest/results.json."""
import json, glob, os, re
os.chdir('/verif')
res = {r['case']: r for r in json.load(open('selftest/results.json'))}
print("| change | property | what it needs to manifest | detected by (first failing obligation) | replay |")
print("|---|---|---|---|---|")
for d in sorted(glob.glob('seeded/*/')):
    m = json.load(open(d+'meta.json'))
    r = res.get(m['seed'], {})
    first = r.get('first','')
    ob = re.search(r'obligation="([^"]*)"', first)
    ob = ob.group(1) if ob else ''
    if len(ob) > 90: ob = ob[:87]+'...'
    rp = 'confirmed on real code (%d of %d)'%(r.get('replay_confirmed',0), r.get('violations',0)) if r.get('replay_confirmed') else 'no-failing-input-found'
    st = r.get('status','?')
    print(f"| {m['seed']} | {m['property']} | {m.get('needs','')} | {st}: `{ob}` | {rp} |")
print()
print("| canary (reverse of fix) | property | detected by | replay |")
print("|---|---|---|---|")
for k,r in sorted(res.items()):
    if not k.startswith('canary_'): continue
    first = r.get('first','')
    ob = re.search(r'obligation="([^"]*)"', first)
    ob = ob.group(1) if ob else ''
    if len(ob) > 90: ob = ob[:87]+'...'
    rp = 'confirmed (%d of %d)'%(r.get('replay_confirmed',0), r.get('violations',0)) if r.get('replay_confirmed') else 'no-failing-input-found'
    print(f"| {k.split('@')[0]} | {r['property']} | {r['status']}: `{ob}` | {rp} |")
