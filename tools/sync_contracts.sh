#!/bin/bash
# Copies the pinned contract files into /repo (build tag `verif`, comment-only)
# and commits them as a hook commit when they changed.
set -e
declare -A map=( [abi]=abi [validate]=validate [verify]=verify [verify_trust]=verify/trust [pcs]=pcs [rtmr]=rtmr [client]=client [tools_check]=tools/check )
for k in "${!map[@]}"; do
  src=/verif/contracts/$k.contracts.go
  [ -f "$src" ] || continue
  cp "$src" /repo/${map[$k]}/verif_contracts.go
done
cd /repo
if [ -n "$(git status --porcelain)" ]; then
  git add -A
  git commit -q -m "verif: contracts for deductive verification (build tag verif, comments only)

These files are compiled only with -tags verif and contain no code: every
//@ line is a contract clause (requires / ensures / assigns / loop invariant)
read by /verif/govc.  With the tag off the packages are unchanged."
  git rev-parse --short HEAD
fi
