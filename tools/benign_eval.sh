#!/bin/bash
# usage: tools/benign_eval.sh <patch.diff> [govc-binary]
# Applies a behaviour-preserving change to a scratch copy of /repo (outside /repo
# and /verif), runs every registered quick check on the copy and prints any
# VIOLATION / ERROR line: each one is a false alarm of the machinery.
patch=$(readlink -f "$1"); bin=${2:-/verif/bin/govc}
name=$(basename "$patch" .diff)
scr=$(mktemp -d /tmp/govc_benign_XXXXXX)
mkdir -p $scr/repo $scr/verif
git -C /repo archive HEAD | tar -x -C $scr/repo
ln -s /verif/contracts $scr/verif/contracts
cp /verif/known_findings.json $scr/verif/
if ! (cd $scr/repo && patch -p1 -s --no-backup-if-mismatch < "$patch"); then echo "$name: PATCH DOES NOT APPLY"; rm -rf $scr; exit 2; fi
bad=0
for p in $(python3 -c "import json;print(' '.join(c['property_id'] for c in json.load(open('/verif/MANIFEST.json'))['checks']))"); do
  out=$(GOVC_REPO=$scr/repo VERIF_DIR=$scr/verif $bin check --property $p --tier quick 2>&1); rc=$?
  if [ $rc -ne 0 ]; then bad=1; echo "$name $p rc=$rc"; echo "$out" | grep -E "^(VIOLATION|ERROR|NOTE)" | sed "s|$scr||g" | cut -c1-260; fi
done
[ $bad -eq 0 ] && echo "$name: no alarm on any of the 20 checks"
rm -rf $scr
exit $bad
