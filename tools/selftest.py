#!/usr/bin/env python3
"""Must-fail corpus: applies every canary (pre-fix version of a repaired finding)
and every seeded change to /repo, runs the property's check, expects a VIOLATION,
and restores /repo.  Usage: tools/selftest.py [name-substring]"""
import json, subprocess, sys, os, glob, re
os.chdir('/verif')
flt = sys.argv[1] if len(sys.argv) > 1 else ''
assert subprocess.run(['git','-C','/repo','status','--porcelain'],capture_output=True,text=True).stdout.strip()=='' , "/repo must be clean"
cases = []
kf = json.load(open('known_findings.json'))['findings']
for f in sorted(glob.glob('selftest/mutants/canary_*.patch')):
    fid = re.match(r'canary_(F\d+)_', os.path.basename(f)).group(1)
    props = next((k['properties'] for k in kf if k['id']==fid), [])
    for p in props:
        cases.append((os.path.basename(f)[:-6]+'@'+p, os.path.abspath(f), p))
# engine canaries: mutations the existing tests do catch, kept because an earlier
# engine version proved them vacuously (name: engine_<property>_<what>.patch)
for f in sorted(glob.glob('selftest/mutants/engine_*.patch')):
    p = re.match(r'engine_(C\d+)_', os.path.basename(f)).group(1)
    cases.append((os.path.basename(f)[:-6], os.path.abspath(f), p))
for d in sorted(glob.glob('seeded/*/')):
    m = json.load(open(d+'meta.json'))
    cases.append((m['seed'], os.path.abspath(d+'patch.diff'), m['property']))
# evidence and replay files of mutated trees go to a scratch directory, never to /verif/evidence
import tempfile, shutil
scratch = tempfile.mkdtemp(prefix='govc_selftest_')
os.symlink('/verif/contracts', scratch+'/contracts')
shutil.copy('known_findings.json', scratch+'/known_findings.json')
env = dict(os.environ, VERIF_DIR=scratch)
results = []
for name, patch, prop in cases:
    if flt not in name: continue
    ap = subprocess.run(['git','-C','/repo','apply',patch],capture_output=True,text=True)
    if ap.returncode != 0:
        results.append({'case':name,'property':prop,'status':'patch-does-not-apply'}); print(name,'SKIP (patch does not apply)'); continue
    try:
        out = subprocess.run(['/verif/bin/govc','check','--property',prop],capture_output=True,text=True,env=env).stdout
    finally:
        subprocess.run(['git','-C','/repo','checkout','--','.'])
    viol = [l for l in out.splitlines() if l.startswith('VIOLATION')]
    confirmed = [l for l in viol if not l.rstrip().endswith('no-failing-input-found')]
    st = 'detected' if viol else 'MISSED'
    results.append({'case':name,'property':prop,'status':st,'violations':len(viol),'replay_confirmed':len(confirmed),
                    'first': viol[0][:300] if viol else ''})
    print(name, prop, st, 'violations=%d confirmed-replays=%d'%(len(viol),len(confirmed)))
shutil.rmtree(scratch, ignore_errors=True)
json.dump(results, open('selftest/results.json','w'), indent=1)
missed=[r for r in results if r['status']=='MISSED']
print('cases=%d detected=%d missed=%d'%(len(results), sum(r['status']=='detected' for r in results), len(missed)))
sys.exit(1 if missed else 0)
