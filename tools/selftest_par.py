#!/usr/bin/env python3
"""Parallel variant of selftest.py: every case runs on its own scratch copy of
/repo's HEAD (outside /repo and /verif), N at a time.  Same result file.
Usage: tools/selftest_par.py [workers] [name-substring]"""
import json, subprocess, sys, os, glob, re, tempfile, shutil
from concurrent.futures import ThreadPoolExecutor
os.chdir('/verif')
workers = int(sys.argv[1]) if len(sys.argv) > 1 else 4
flt = sys.argv[2] if len(sys.argv) > 2 else ''
cases = []
kf = json.load(open('known_findings.json'))['findings']
for f in sorted(glob.glob('selftest/mutants/canary_*.patch')):
    fid = re.match(r'canary_(F\d+)_', os.path.basename(f)).group(1)
    for p in next((k['properties'] for k in kf if k['id']==fid), []):
        cases.append((os.path.basename(f)[:-6]+'@'+p, os.path.abspath(f), p))
for f in sorted(glob.glob('selftest/mutants/engine_*.patch')):
    cases.append((os.path.basename(f)[:-6], os.path.abspath(f), re.match(r'engine_(C\d+)_', os.path.basename(f)).group(1)))
for d in sorted(glob.glob('seeded/*/')):
    m = json.load(open(d+'meta.json'))
    cases.append((m['seed'], os.path.abspath(d+'patch.diff'), m['property']))
cases = [c for c in cases if flt in c[0]]
def run(case):
    name, patch, prop = case
    sc = tempfile.mkdtemp(prefix='govc_stp_')
    try:
        os.makedirs(sc+'/repo'); os.makedirs(sc+'/verif')
        subprocess.run('git -C /repo archive HEAD | tar -x -C %s/repo' % sc, shell=True, check=True)
        ap = subprocess.run(['git','apply',patch], cwd=sc+'/repo', capture_output=True, text=True)
        if ap.returncode != 0:
            ap = subprocess.run('patch -p1 -s --no-backup-if-mismatch < %s' % patch, shell=True, cwd=sc+'/repo', capture_output=True, text=True)
            if ap.returncode != 0:
                return {'case':name,'property':prop,'status':'patch-does-not-apply'}
        os.symlink('/verif/contracts', sc+'/verif/contracts')
        shutil.copy('known_findings.json', sc+'/verif/known_findings.json')
        env = dict(os.environ, VERIF_DIR=sc+'/verif', GOVC_REPO=sc+'/repo')
        out = subprocess.run(['/verif/bin/govc','check','--property',prop], capture_output=True, text=True, env=env).stdout
        viol = [l.replace(sc,'') for l in out.splitlines() if l.startswith('VIOLATION')]
        confirmed = [l for l in viol if not l.rstrip().endswith('no-failing-input-found')]
        st = 'detected' if viol else 'MISSED'
        print(name, prop, st, 'violations=%d confirmed-replays=%d'%(len(viol),len(confirmed)), flush=True)
        return {'case':name,'property':prop,'status':st,'violations':len(viol),'replay_confirmed':len(confirmed),'first': viol[0][:300] if viol else ''}
    finally:
        shutil.rmtree(sc, ignore_errors=True)
with ThreadPoolExecutor(workers) as ex:
    results = list(ex.map(run, cases))
json.dump(results, open('selftest/results.json','w'), indent=1)
missed=[r for r in results if r['status']=='MISSED']
print('cases=%d detected=%d missed=%d'%(len(results), sum(r['status']=='detected' for r in results), len(missed)))
sys.exit(1 if missed else 0)
