#!/bin/bash
# usage: tools/seed_eval.sh <seed-name> <property> <worktree-dir>
# Confirms a seeded change (build, suite passes, demo fails with / passes without),
# stores it under /verif/seeded/<seed-name>/ and runs the property's check against it.
set -u
name=$1; prop=$2; wt=$3
export GOFLAGS=-mod=mod GOPROXY=off GOSUMDB=off GOTOOLCHAIN=local
dst=/verif/seeded/$name
mkdir -p $dst
patch=$dst/patch.diff
git -C $wt diff > $patch
demo=$(cd $wt && git ls-files --others --exclude-standard | grep '_test.go$' | head -1)
[ -f "$wt/SEED_NOTES.md" ] && cp $wt/SEED_NOTES.md $dst/NOTES.md
cp $wt/$demo $dst/$(basename $demo)
demopkg=./$(dirname $demo)
scr=/tmp/seedchk_$name
rm -rf $scr; git -C /repo worktree add -q --detach $scr HEAD
cp $wt/$demo $scr/$demo
cd $scr
base_demo=$(go test -count=1 $demopkg 2>&1 | tail -1)
if ! git apply $patch; then echo "PATCH DOES NOT APPLY to current HEAD"; fi
build=$(go build ./... 2>&1 | tail -1)
mv $demo /tmp/demo_$name.go.txt
suite=$(go test -count=1 ./... 2>&1 | grep -v "no test files" | grep -v "^ok" | head -5)
mv /tmp/demo_$name.go.txt $demo
with_demo=$(go test -count=1 $demopkg 2>&1 | tail -1)
cd /verif
git -C /repo worktree remove --force $scr
# run the check against the change: on /repo itself (apply, check, undo) unless
# SEED_EVAL_SCRATCH=1, in which case a scratch copy outside /repo and /verif is
# used (needed while another job is using /repo's working tree)
if [ "${SEED_EVAL_SCRATCH:-0}" = 1 ]; then
  sc=$(mktemp -d /tmp/govc_seedeval_XXXXXX); mkdir -p $sc/repo $sc/verif
  git -C /repo archive HEAD | tar -x -C $sc/repo
  (cd $sc/repo && patch -p1 -s --no-backup-if-mismatch < $patch)
  ln -s /verif/contracts $sc/verif/contracts; cp /verif/known_findings.json $sc/verif/
  out=$(GOVC_REPO=$sc/repo VERIF_DIR=$sc/verif /verif/bin/govc check --property $prop 2>&1 | grep -E "VIOLATION|ERROR|^property=" | sed "s|$sc||g" | head -8)
  rm -rf $sc
else
  git -C /repo apply $patch
  sv=$(mktemp -d /tmp/govc_seedeval_XXXXXX); ln -s /verif/contracts $sv/contracts; cp /verif/known_findings.json $sv/
  out=$(VERIF_DIR=$sv /verif/bin/govc check --property $prop 2>&1 | grep -E "VIOLATION|ERROR|^property=" | sed "s|$sv||g" | head -8)
  git -C /repo checkout -- .
  rm -rf $sv
fi
echo "== $name ($prop)"
echo "demo on unchanged: $base_demo"
echo "build with change: ${build:-ok}"
echo "suite with change (failures): ${suite:-none}"
echo "demo with change: $with_demo"
echo "check output:"; echo "$out"
python3 - "$name" "$prop" "$demo" "$base_demo" "$with_demo" "${suite:-none}" "$out" <<'PY'
import json,sys
name,prop,demo,base,withc,suite,out=sys.argv[1:8]
meta={"seed":name,"property":prop,"demo_test":demo,"demo_on_unchanged":base,"demo_with_change":withc,"suite_failures_with_change":suite,
 "check_output_with_change":out.splitlines(),"detected": "VIOLATION" in out,
 "ran":["git worktree add scratch HEAD; copy demo; go test <demo pkg> (passes)","git apply patch.diff; go build ./...; go test ./... without demo (passes)","go test <demo pkg> with demo (fails)","git -C /repo apply patch.diff; govc check --property %s; git -C /repo checkout -- ."%prop]}
try:
    old=json.load(open(f'/verif/seeded/{name}/meta.json'))
    for k in ('needs','source'):
        if k in old: meta[k]=old[k]
except Exception: pass
json.dump(meta,open(f'/verif/seeded/{name}/meta.json','w'),indent=1)
PY
