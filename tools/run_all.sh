#!/bin/bash
# Runs the quick check of every claimed property on /repo's working tree.
cd /verif
rc=0
for p in $(python3 -c "import json;print(' '.join(c['property_id'] for c in json.load(open('MANIFEST.json'))['checks']))"); do
  out=$(./bin/govc check --property $p --tier ${1:-quick} 2>&1); r=$?
  echo "$out" | grep -E "VIOLATION|ERROR|KNOWN-FINDING|^property=" | cut -c1-220
  [ $r -ne 0 ] && rc=1
done
exit $rc
