#!/usr/bin/env python3
"""Regenerates /verif/MANIFEST.json from tools/manifest_table.json."""
import json, os, subprocess
here = os.path.dirname(os.path.abspath(__file__))
root = os.path.dirname(here)
table = json.load(open(os.path.join(here, 'manifest_table.json')))
props = [json.loads(l)['id'] for l in open(os.path.join(root, 'properties.jsonl'))]
checks = []
claimed = set()
for pid in props:
    t = table['checks'].get(pid)
    if not t:
        continue
    claimed.add(pid)
    checks.append({
        "property_id": pid,
        "quick_cmd": f"/verif/bin/govc check --property {pid} --tier quick",
        "thorough_cmd": f"/verif/bin/govc check --property {pid} --tier thorough",
        "evidence_file": f"/verif/evidence/{pid}.json",
        "replay_cmd_template": "/verif/bin/govc replay {path}",
        "engine": "govc",
        "level_claimed": {"category": t.get("category", "proof"), "text": t["text"], "design_ref": t.get("design_ref", "DESIGN.md section 4, " + pid)},
        "level_note": t["note"],
        "technique": t.get("technique", "contract-based deductive verification: weakest-precondition style VCs generated from go/ssa of /repo, contracts in verif_contracts.go, discharged by z3/cvc5"),
    })
na = []
for pid in props:
    if pid in claimed:
        continue
    na.append({"property_id": pid, "reason": table['not_applicable'].get(pid, "check not built yet (construction in progress)")})
hooks_commits = subprocess.run(['git','-C','/repo','log','--grep=^verif:','--format=%h','--reverse'],capture_output=True,text=True).stdout.split() or table.get('hook_commits', [])
m = {
    "version": 1,
    "setup_cmd": "cd /verif/govc && GOFLAGS=-mod=mod GOPROXY=off GOSUMDB=off GOTOOLCHAIN=local go build -o /verif/bin/govc .",
    "hooks": {"guard": "verif", "enable": "-tags verif (govc loads /repo with this tag; the guarded files contain contract comments only, no code)",
              "baseline_off_cmd": "cd /repo && go test -vet=off -count=1 -timeout 25m ./...", "source_commits": hooks_commits, "add_only": True},
    "engines": [{"name": "govc", "path": "/verif/govc", "serves_properties": sorted(claimed),
                 "kind_free_text": "verification-condition generator for Go (go/ssa symbolic execution against contracts) + SMT portfolio (z3 5.1.0, z3 4.8.12, cvc5 1.0.3)"}],
    "checks": checks,
    "notes": table.get("notes", ""),
    "not_applicable": na,
}
json.dump(m, open(os.path.join(root, 'MANIFEST.json'), 'w'), indent=1)
print("checks:", len(checks), "not_applicable:", len(na))
