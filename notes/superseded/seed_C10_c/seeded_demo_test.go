package verify

import (
	"encoding/hex"
	"testing"

	"github.com/google/go-tdx-guest/abi"
	"github.com/google/go-tdx-guest/pcs"
	pb "github.com/google/go-tdx-guest/proto/tdx"
	testcases "github.com/google/go-tdx-guest/testing"
	"github.com/google/go-tdx-guest/testing/testdata"
)

// TestSeededDemoSupportedTcbLevelsPartialQuote calls
// SupportedTcbLevelsFromCollateral with valid options/collateral but with quote
// messages whose TD quote body is absent or carries a too-short TEE TCB SVN.
// The entry point must answer with an error, never panic.
func TestSeededDemoSupportedTcbLevelsPartialQuote(t *testing.T) {
	getter := testcases.TestGetter
	fmspc := hex.EncodeToString([]byte{80, 128, 111, 0, 0, 0})
	collateral, err := obtainCollateral(fmspc, platformIssuerID, &Options{Getter: getter})
	if err != nil {
		t.Fatal(err)
	}
	tcbInfo := collateral.TdxTcbInfo.TcbInfo
	setTcbSvnValues(0, 0, &tcbInfo.TcbLevels[0].Tcb.TdxTcbcomponents, &tcbInfo.TcbLevels[0].Tcb.SgxTcbcomponents)

	anyQuote, err := abi.QuoteToProto(testdata.RawQuote)
	if err != nil {
		t.Fatal(err)
	}
	chain, err := ExtractChainFromQuote(anyQuote)
	if err != nil {
		t.Fatal(err)
	}
	ext, err := pcs.PckCertificateExtensions(chain.PCKCertificate)
	if err != nil {
		t.Fatal(err)
	}
	full := anyQuote.(*pb.QuoteV4)

	quotes := map[string]*pb.QuoteV4{
		"empty quote":       {},
		"nil td quote body": {Header: full.GetHeader(), SignedData: full.GetSignedData()},
		"empty tee_tcb_svn": {Header: full.GetHeader(), SignedData: full.GetSignedData(), TdQuoteBody: &pb.TDQuoteBody{}},
		"1-byte tee_tcb_svn": {Header: full.GetHeader(), SignedData: full.GetSignedData(),
			TdQuoteBody: &pb.TDQuoteBody{TeeTcbSvn: []byte{0}}},
	}
	for name, q := range quotes {
		t.Run(name, func(t *testing.T) {
			defer func() {
				if r := recover(); r != nil {
					t.Fatalf("SupportedTcbLevelsFromCollateral panicked: %v", r)
				}
			}()
			options := &Options{
				GetCollateral:     true,
				Now:               testTimeSet(currentTime),
				chain:             chain,
				collateral:        collateral,
				pckCertExtensions: ext,
			}
			if _, _, err := SupportedTcbLevelsFromCollateral(q, options); err == nil {
				t.Errorf("SupportedTcbLevelsFromCollateral() = nil error, want an error for a partial quote")
			}
		})
	}
}
