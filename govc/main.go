package main

import (
	"runtime/debug"
	"syscall"
	"flag"
	"fmt"
	"os"
	"path/filepath"
	"runtime/pprof"
	"sort"
	"strings"
	"time"

	"govc/vc"

	"golang.org/x/tools/go/packages"
	"golang.org/x/tools/go/ssa"
	"golang.org/x/tools/go/ssa/ssautil"
)

var repo = func() string {
	if r := os.Getenv("GOVC_REPO"); r != "" {
		return r
	}
	return "/repo"
}()
const modPath = "github.com/google/go-tdx-guest"

var repoPkgs = []string{"./abi", "./verify", "./validate", "./pcs", "./client", "./rtmr", "./verify/trust", "./tools/check", "./proto/..."}

type world struct {
	contractNotes []string
	prog  *ssa.Program
	pkgs  []*ssa.Package
	db    *vc.SpecDB
	funcs map[string]*ssa.Function // short key -> function
}

func load() (*world, error) {
	cfg := &packages.Config{Mode: packages.LoadAllSyntax, Dir: repo, BuildFlags: []string{"-tags=verif"},
		Env: append(os.Environ(), "GOFLAGS=-mod=mod", "GOPROXY=off", "GOSUMDB=off", "GOTOOLCHAIN=local")}
	pkgs, err := packages.Load(cfg, repoPkgs...)
	if err != nil {
		return nil, err
	}
	nerr := 0
	packages.Visit(pkgs, nil, func(p *packages.Package) {
		for _, e := range p.Errors {
			if strings.HasPrefix(p.PkgPath, modPath) {
				fmt.Fprintf(os.Stderr, "load error: %v\n", e)
				nerr++
			}
		}
	})
	if nerr > 0 {
		return nil, fmt.Errorf("%d errors loading /repo", nerr)
	}
	prog, spkgs := ssautil.AllPackages(pkgs, ssa.GlobalDebug|ssa.InstantiateGenerics)
	prog.Build()
	w := &world{prog: prog, db: vc.NewSpecDB(), funcs: map[string]*ssa.Function{}}
	for _, p := range spkgs {
		if p == nil {
			continue
		}
		w.pkgs = append(w.pkgs, p)
	}
	for f := range ssautil.AllFunctions(prog) {
		if f.Pkg == nil && f.Parent() == nil {
			continue
		}
		k := vc.FuncKey(f)
		if strings.HasPrefix(k, modPath) {
			w.funcs[strings.TrimPrefix(k, modPath+"/")] = f
		}
	}
	return w, nil
}

// loadSpecs reads contract files: /repo/<pkg>/verif_contracts.go when present,
// else the pinned copy in /verif/contracts/<pkg>.contracts.go; plus externals.
func (w *world) loadSpecs(verifDir string) error {
	for _, p := range w.pkgs {
		path := p.Pkg.Path()
		if !strings.HasPrefix(path, modPath) {
			continue
		}
		rel := strings.TrimPrefix(strings.TrimPrefix(path, modPath), "/")
		inRepo := filepath.Join(repo, rel, "verif_contracts.go")
		pinned := filepath.Join(verifDir, "contracts", strings.ReplaceAll(rel, "/", "_")+".contracts.go")
		var use string
		if _, err := os.Stat(inRepo); err == nil {
			use = inRepo
			a, _ := os.ReadFile(inRepo)
			b, err2 := os.ReadFile(pinned)
			if err2 == nil && string(a) != string(b) {
				w.contractNotes = append(w.contractNotes, fmt.Sprintf("%s differs from the pinned copy %s (the file in /repo is used)", inRepo, pinned))
			}
		} else if _, err := os.Stat(pinned); err == nil {
			use = pinned
			w.contractNotes = append(w.contractNotes, fmt.Sprintf("%s is absent from /repo: the pinned copy %s is used", inRepo, pinned))
		}
		if use == "" {
			continue
		}
		if err := w.db.LoadFile(use, path); err != nil {
			return err
		}
	}
	ext := filepath.Join(verifDir, "contracts", "externals.spec")
	if _, err := os.Stat(ext); err == nil {
		if err := w.db.LoadFile(ext, ""); err != nil {
			return err
		}
	}
	return nil
}

func main() {
	// a runaway query must never take the machine down: the address space of
	// this process (and of the solvers and replay tests it starts) is capped
	var lim syscall.Rlimit
	if err := syscall.Getrlimit(syscall.RLIMIT_AS, &lim); err == nil {
		const cap = 40 << 30
		if lim.Cur > cap {
			lim.Cur = cap
			syscall.Setrlimit(syscall.RLIMIT_AS, &lim)
		}
	}
	// term construction allocates heavily: collect somewhat less often
	if os.Getenv("GOGC") == "" {
		debug.SetGCPercent(200)
	}
	if len(os.Args) < 2 {
		fmt.Fprintln(os.Stderr, "usage: govc verify|check|list ...")
		os.Exit(2)
	}
	switch os.Args[1] {
	case "verify":
		cmdVerify(os.Args[2:])
	case "check":
		cmdCheck(os.Args[2:])
	case "replay":
		cmdReplay(os.Args[2:])
	case "list":
		cmdList(os.Args[2:])
	default:
		fmt.Fprintln(os.Stderr, "unknown command", os.Args[1])
		os.Exit(2)
	}
}

func verifDir() string {
	if d := os.Getenv("VERIF_DIR"); d != "" {
		return d
	}
	return "/verif"
}

func cmdList(args []string) {
	w, err := load()
	if err != nil {
		fmt.Fprintln(os.Stderr, err)
		os.Exit(2)
	}
	var ks []string
	for k := range w.funcs {
		ks = append(ks, k)
	}
	sort.Strings(ks)
	for _, k := range ks {
		fmt.Println(k)
	}
}

// cmdVerify: development entry point, verifies named functions and prints obligations.
func cmdVerify(args []string) {
	fs := flag.NewFlagSet("verify", flag.ExitOnError)
	verbose := fs.Bool("v", false, "print every obligation")
	dump := fs.String("dump", "", "directory for SMT scripts of unproved obligations")
	auto := fs.Bool("auto", false, "zero-annotation mode for loops")
	thorough := fs.Bool("thorough", false, "longer solver timeouts")
	prof := fs.String("cpuprofile", "", "write a CPU profile")
	fs.Parse(args)
	if *prof != "" {
		f, _ := os.Create(*prof)
		pprof.StartCPUProfile(f)
		go func() {
			time.Sleep(40 * time.Second)
			pprof.StopCPUProfile()
			f.Close()
			os.Exit(3)
		}()
	}
	t0 := time.Now()
	w, err := load()
	if err != nil {
		fmt.Fprintln(os.Stderr, err)
		os.Exit(2)
	}
	if err := w.loadSpecs(verifDir()); err != nil {
		fmt.Fprintln(os.Stderr, "ERROR", err)
		os.Exit(2)
	}
	w.db.AutoHavoc = *auto
	fmt.Printf("loaded in %.1fs\n", time.Since(t0).Seconds())
	bad := 0
	for _, pat := range fs.Args() {
		var names []string
		for k := range w.funcs {
			if matchPat(pat, k) {
				names = append(names, k)
			}
		}
		sort.Strings(names)
		if len(names) == 0 {
			fmt.Printf("no function matches %q\n", pat)
			bad++
		}
		for _, name := range names {
			fn := w.funcs[name]
			if len(fn.Blocks) == 0 || fn.Name() == "init" || strings.HasPrefix(fn.Name(), "init#") {
				continue
			}
			if sp := w.db.Lookup(fn); sp != nil && sp.Inline && pat != name {
				continue
			}
			tf := time.Now()
			fr := vc.VerifyFunc(w.prog, w.db, fn, !*thorough, 16, *dump != "")
			fmt.Printf("-- %s wall %.2fs\n", name, time.Since(tf).Seconds())
			np, nf, nu := 0, 0, 0
			for _, r := range fr.Obls {
				switch r.Status {
				case "proved", "cover-ok":
					np++
				case "failed", "cover-failed":
					nf++
				default:
					nu++
				}
			}
			fmt.Printf("== %s: %d obligations, %d ok, %d failed, %d undecided, %d problems (gen %.2fs)\n", name, len(fr.Obls), np, nf, nu, len(fr.Problems), fr.GenTime)
			if fr.Exec != nil {
				for _, n := range fr.Exec.Notes {
					fmt.Printf("   NOTE %s\n", n)
				}
				if fr.Exec.AutoInvs > 0 {
					fmt.Printf("   derived search-loop invariants: %d\n", fr.Exec.AutoInvs)
				}
			}
			for _, p := range fr.Problems {
				fmt.Printf("   PROBLEM %s (%s)\n", p.Msg, p.Pos)
				bad++
			}
			for i, r := range fr.Obls {
				ok := r.Status == "proved" || r.Status == "cover-ok"
				if !ok {
					bad++
				}
				if *verbose || !ok {
					fmt.Printf("   %-12s %-8s %6.2fs size=%-6d %s  [%s:%d]\n", r.Status, r.Solver, r.Time, r.Size, r.O.Name(), filepath.Base(r.O.Pos.Filename), r.O.Pos.Line)
				}
				if *dump != "" && (!ok || *verbose) && r.Script != "" {
					os.MkdirAll(*dump, 0o755)
					os.WriteFile(filepath.Join(*dump, fmt.Sprintf("%s_%d.smt2", strings.ReplaceAll(name, "/", "_"), i)), []byte(r.Script), 0o644)
				}
			}
		}
	}
	if bad > 0 {
		os.Exit(1)
	}
}

func matchPat(pat, name string) bool {
	if pat == name {
		return true
	}
	if strings.HasSuffix(pat, "*") {
		return strings.HasPrefix(name, strings.TrimSuffix(pat, "*"))
	}
	return false
}

