package main

import (
	"encoding/json"
	"fmt"
	"govc/smt"
	"os"
	"os/exec"
	"path/filepath"
	"sort"
	"strings"
	"time"

	"govc/vc"
)

// tryReplay turns the solver's counterexample into a concrete input, runs the
// real function on it (in-package test injected with `go test -overlay`,
// nothing is written to /repo) and compares the observed outcome with the one
// the counterexample predicts.
// replayGlobalDeadline bounds the counterexample search of one check run.
var replayGlobalDeadline time.Time

func tryReplay(w *world, o *vc.OblResult, ex *vc.Exec, rp *Replay) {
	if o.Status != "failed" || ex == nil || o.Script == "" {
		rp.Notes = append(rp.Notes, "no counterexample (the obligation is undischarged, not refuted)")
		return
	}
	// Prefer a counterexample of the query with every opaque predicate
	// unfolded: its model is faithful to the data, not only to the predicate.
	useEx, useObl, useScript := ex, o.O, o.Script
	type attempt struct {
		small  uint64
		inline int
	}
	var attempts []attempt
	// first with the bodies of contracted callees in place of their contracts
	// (the counterexample is then consistent with the callees' real
	// behaviour), then with the contracts as in the proof
	for _, small := range []uint64{16, 96, 640} {
		attempts = append(attempts, attempt{small, 3})
	}
	for _, small := range []uint64{16, 96, 640, 0} {
		attempts = append(attempts, attempt{small, 0})
	}
	inlineBudget := 40 * time.Second
	// the search for a replayable counterexample is bounded per violation (the
	// violation itself is already established by the failed obligation)
	deadline := time.Now().Add(90 * time.Second)
	if replayGlobalDeadline.Before(deadline) && !replayGlobalDeadline.IsZero() {
		deadline = replayGlobalDeadline
	}
	for _, at := range attempts {
		small := at.small
		if at.inline > 0 && inlineBudget <= 0 {
			continue
		}
		if time.Now().After(deadline) {
			rp.Notes = append(rp.Notes, "counterexample search stopped: time budget for replays used up")
			break
		}
		ex2 := vc.NewExec(w.prog, w.db, ex.Fn)
		ex2.RevealAll = true
		ex2.SmallLen = small
		ex2.ReplayInline = at.inline
		if at.inline > 0 {
			ex2.ReplayDeadline = time.Now().Add(20 * time.Second)
		}
		tg := time.Now()
		ex2.Generate()
		if at.inline > 0 {
			inlineBudget -= time.Since(tg)
			if len(ex2.Probs) > 0 {
				if os.Getenv("GOVC_DEBUG") != "" {
					fmt.Fprintf(os.Stderr, "replay inline attempt small=%d: problems: %v\n", small, ex2.Probs[0].Msg)
				}
				continue
			}
		}
		found := false
		for _, o2 := range ex2.Obls {
			if o2.Name() == o.O.Name() {
				if sc := ex2.ScriptFor(o2); sc != "" {
					to := 30 * time.Second
					if at.inline > 0 {
						to = 15 * time.Second
					}
					r := smt.RunSolver("z3-new", sc, to)
					if os.Getenv("GOVC_DEBUG") != "" {
						fmt.Fprintf(os.Stderr, "replay attempt small=%d inline=%d %s: %s\n", small, at.inline, o2.Name(), r.Status)
					}
					if r.Status == "sat" {
						useEx, useObl, useScript = ex2, o2, sc
						found = true
						if at.inline > 0 {
							rp.Notes = append(rp.Notes, "counterexample search with the bodies of contracted callees executed in place of their contracts")
						}
						if small > 0 {
							rp.Notes = append(rp.Notes, fmt.Sprintf("counterexample searched among inputs whose slices have at most %d elements, with all opaque predicates unfolded and quantifiers fully instantiated over that range", small))
						} else {
							rp.Notes = append(rp.Notes, "counterexample taken from the query with all opaque predicates unfolded")
						}
					}
				}
				break
			}
		}
		if found {
			break
		}
	}
	plan := useEx.BuildReplay(useObl, useScript)
	rp.Notes = append(rp.Notes, plan.Notes...)
	if !plan.OK {
		rp.Notes = append(rp.Notes, "no concrete input could be constructed from the solver model")
		return
	}
	src := renderTest(plan)
	rp.Test = src
	// the test runs in a scratch copy of the working tree (outside /repo and
	// /verif, removed afterwards): nothing is ever written to the repository,
	// not even by the repository's own TestMain helpers
	rel := strings.TrimPrefix(strings.TrimPrefix(plan.Package, modPath), "/")
	scratch, err := os.MkdirTemp("", "govc_replay_")
	if err != nil {
		rp.Notes = append(rp.Notes, "cannot create a scratch directory: "+err.Error())
		return
	}
	defer os.RemoveAll(scratch)
	copyDir := filepath.Join(scratch, "repo")
	if o, err := exec.Command("cp", "-a", repo, copyDir).CombinedOutput(); err != nil {
		rp.Notes = append(rp.Notes, "cannot copy the working tree: "+strings.TrimSpace(string(o)))
		return
	}
	os.RemoveAll(filepath.Join(copyDir, ".git"))
	os.WriteFile(filepath.Join(copyDir, rel, "zz_govc_replay_test.go"), []byte(src), 0o644)
	cmd := exec.Command("bash", "-c", fmt.Sprintf("ulimit -v 8000000; cd %s && go test -tags verif -vet=off -v -count=1 -timeout 60s -run '^TestGovcReplay$' ./%s 2>&1 | head -c 20000", copyDir, rel))
	cmd.Env = append(os.Environ(), "GOFLAGS=-mod=mod", "GOPROXY=off", "GOSUMDB=off", "GOTOOLCHAIN=local")
	out, _ := cmd.CombinedOutput()
	rp.TestOutput = string(out)
	rp.Package = rel
	for _, line := range strings.Split(string(out), "\n") {
		if strings.HasPrefix(line, "GOVC-REPLAY ") {
			rp.Expect = append(rp.Expect, line)
		}
	}
	observed := map[int]string{}
	panicked := false
	for _, line := range strings.Split(string(out), "\n") {
		if strings.HasPrefix(line, "GOVC-REPLAY PANIC") {
			panicked = true
		}
		var idx int
		var val string
		if n, _ := fmt.Sscanf(line, "GOVC-REPLAY RESULT %d: %s", &idx, &val); n == 2 {
			if k := strings.Index(line, ": "); k >= 0 {
				val = strings.TrimSpace(line[k+2:])
			}
			observed[idx] = val
		}
	}
	switch o.O.Kind {
	case "bounds", "nil", "conv", "assert-type", "div", "panic":
		if panicked {
			rp.Confirmed = true
			rp.Notes = append(rp.Notes, "the real function panics on the input built from the counterexample")
		} else {
			rp.Notes = append(rp.Notes, "the real function did not panic on the input built from the counterexample")
		}
	case "post":
		if panicked {
			rp.Notes = append(rp.Notes, "the real function panicked on the counterexample input")
			return
		}
		if len(plan.Predicted) == 0 || len(observed) == 0 {
			rp.Notes = append(rp.Notes, "no observable results to compare")
			return
		}
		match := true
		var idxs []int
		for i := range plan.Predicted {
			idxs = append(idxs, i)
		}
		sort.Ints(idxs)
		for _, i := range idxs {
			p := plan.Predicted[i]
			if p == "?" || p == "string" {
				continue
			}
			ob := observed[i]
			if !strings.Contains(p, " hex=") {
				if k := strings.Index(ob, " hex="); k >= 0 {
					ob = ob[:k]
				}
			}
			if ob != p {
				match = false
				rp.Notes = append(rp.Notes, fmt.Sprintf("result %d: counterexample predicts %s, real code returned %s", i, p, observed[i]))
			}
		}
		if match {
			// the outcome must be one the clause speaks about: for `A ==> B` with
			// A over the nil-ness of results (err == nil ==> ...), an outcome with
			// A false satisfies the clause trivially and demonstrates nothing;
			// likewise an input that breaks a nil-ness precondition
			if why := vacuousReplay(useEx, o.O, plan, observed); why != "" {
				rp.Notes = append(rp.Notes, why)
				return
			}
			// the comparison covers nil-ness, lengths, scalars and the bytes of
			// byte-slice results; a clause that reads more of a result (fields of
			// a returned struct, elements of other slices) is not settled by it
			if what := deepResultRead(useEx, o.O, plan); what != "" {
				rp.Notes = append(rp.Notes, "the real function returns the outcome the counterexample predicts as far as compared (nil-ness, lengths, scalars, bytes of byte slices), but the clause also reads "+what+", which the comparison does not cover: not counted as a demonstration")
				return
			}
			rp.Confirmed = true
			rp.Notes = append(rp.Notes, "the real function returns the outcome the counterexample predicts for this input (compared: nil-ness of pointers, errors and slices, slice lengths, scalar results, bytes of byte-slice results); for that input/outcome pair the contract clause is false")
		}
	default:
		rp.Notes = append(rp.Notes, "obligation kind "+o.O.Kind+" is not replayed")
	}
}

func renderTest(p *vc.ReplayPlan) string {
	var sb strings.Builder
	fmt.Fprintf(&sb, "package %s\n\nimport (\n\t\"fmt\"\n\t\"testing\"\n", p.PkgName)
	var decls strings.Builder
	for i, a := range p.ArgExprs {
		fmt.Fprintf(&decls, "\tvar a%d %s = %s\n", i, p.ArgTypes[i], a)
	}
	var paths []string
	for path := range p.Imports {
		paths = append(paths, path)
	}
	sort.Strings(paths)
	for _, path := range paths {
		if path == "fmt" || path == "testing" {
			continue
		}
		// only packages the generated text actually mentions (an unused import
		// does not compile)
		if !strings.Contains(decls.String()+p.Call+p.Decls, p.Imports[path]+".") {
			continue
		}
		fmt.Fprintf(&sb, "\t%s %q\n", p.Imports[path], path)
	}
	sb.WriteString(")\n\n")
	sb.WriteString(p.Decls)
	sb.WriteString("// generated by govc from a solver counterexample\nfunc TestGovcReplay(t *testing.T) {\n")
	sb.WriteString(decls.String())
	sb.WriteString("\tfunc() {\n\t\tdefer func() {\n\t\t\tif r := recover(); r != nil {\n\t\t\t\tfmt.Printf(\"GOVC-REPLAY PANIC: %v\\n\", r)\n\t\t\t}\n\t\t}()\n")
	var rs []string
	for i := 0; i < p.NumRes; i++ {
		rs = append(rs, fmt.Sprintf("r%d", i))
	}
	if p.NumRes > 0 {
		fmt.Fprintf(&sb, "\t\t%s := %s\n", strings.Join(rs, ", "), p.Call)
	} else {
		fmt.Fprintf(&sb, "\t\t%s\n", p.Call)
	}
	for i := 0; i < p.NumRes; i++ {
		switch p.ResKinds[i] {
		case "iface", "ptr":
			fmt.Fprintf(&sb, "\t\tif r%d == nil {\n\t\t\tfmt.Println(\"GOVC-REPLAY RESULT %d: nil\")\n\t\t} else {\n\t\t\tfmt.Println(\"GOVC-REPLAY RESULT %d: non-nil\")\n\t\t}\n", i, i, i)
		case "slice":
			if p.ResTypes[i] == "[]byte" || p.ResTypes[i] == "[]uint8" {
				fmt.Fprintf(&sb, "\t\tif r%d == nil {\n\t\t\tfmt.Println(\"GOVC-REPLAY RESULT %d: nil\")\n\t\t} else if len(r%d) <= 4096 {\n\t\t\tfmt.Printf(\"GOVC-REPLAY RESULT %d: len=%%d hex=%%x\\n\", len(r%d), r%d)\n\t\t} else {\n\t\t\tfmt.Printf(\"GOVC-REPLAY RESULT %d: len=%%d\\n\", len(r%d))\n\t\t}\n", i, i, i, i, i, i, i, i)
				break
			}
			fmt.Fprintf(&sb, "\t\tif r%d == nil {\n\t\t\tfmt.Println(\"GOVC-REPLAY RESULT %d: nil\")\n\t\t} else {\n\t\t\tfmt.Printf(\"GOVC-REPLAY RESULT %d: len=%%d\\n\", len(r%d))\n\t\t}\n", i, i, i, i)
		case "bool", "int":
			fmt.Fprintf(&sb, "\t\tfmt.Printf(\"GOVC-REPLAY RESULT %d: %%v\\n\", r%d)\n", i, i)
		default:
			fmt.Fprintf(&sb, "\t\t_ = r%d\n", i)
		}
	}
	sb.WriteString("\t}()\n}\n")
	return sb.String()
}


// cmdReplay re-runs the test stored in a replay file against the current
// working tree of the repository.  Exit 1 when the recorded violating outcome
// is reproduced, 0 when it is not (or the file holds no confirmed input).
func cmdReplay(args []string) {
	if len(args) != 1 {
		fmt.Println("usage: govc replay <replay.json>")
		os.Exit(2)
	}
	data, err := os.ReadFile(args[0])
	if err != nil {
		fmt.Println("ERROR", err)
		os.Exit(2)
	}
	var rp Replay
	if err := json.Unmarshal(data, &rp); err != nil {
		fmt.Println("ERROR", err)
		os.Exit(2)
	}
	fmt.Printf("property=%s obligation=%q kind=%s\n", rp.Property, rp.Obligation, rp.Kind)
	if rp.Test == "" || !rp.Confirmed {
		fmt.Println("the file holds no failing input (no-failing-input-found); solver verdict and script are in the file")
		for _, n := range rp.Notes {
			fmt.Println("  note:", n)
		}
		os.Exit(0)
	}
	dir, err := os.MkdirTemp("", "govc_replay_")
	if err != nil {
		fmt.Println("ERROR", err)
		os.Exit(2)
	}
	defer os.RemoveAll(dir)
	copyDir := filepath.Join(dir, "repo")
	if o, err := exec.Command("cp", "-a", repo, copyDir).CombinedOutput(); err != nil {
		fmt.Println("ERROR cannot copy the working tree:", strings.TrimSpace(string(o)))
		os.Exit(2)
	}
	os.RemoveAll(filepath.Join(copyDir, ".git"))
	os.WriteFile(filepath.Join(copyDir, rp.Package, "zz_govc_replay_test.go"), []byte(rp.Test), 0o644)
	cmd := exec.Command("bash", "-c", fmt.Sprintf("ulimit -v 8000000; cd %s && go test -tags verif -vet=off -v -count=1 -timeout 60s -run '^TestGovcReplay$' ./%s 2>&1 | head -c 20000", copyDir, rp.Package))
	cmd.Env = append(os.Environ(), "GOFLAGS=-mod=mod", "GOPROXY=off", "GOSUMDB=off", "GOTOOLCHAIN=local")
	out, _ := cmd.CombinedOutput()
	var got []string
	for _, line := range strings.Split(string(out), "\n") {
		if strings.HasPrefix(line, "GOVC-REPLAY ") {
			got = append(got, line)
			fmt.Println(line)
		}
	}
	same := len(got) == len(rp.Expect) && len(got) > 0
	for i := range got {
		if i < len(rp.Expect) && got[i] != rp.Expect[i] {
			// panics carry addresses etc.: compare the kind of outcome only
			if !(strings.HasPrefix(got[i], "GOVC-REPLAY PANIC") && strings.HasPrefix(rp.Expect[i], "GOVC-REPLAY PANIC")) {
				same = false
			}
		}
	}
	if same {
		fmt.Println("reproduced: the real code shows the recorded violating outcome on this input")
		os.RemoveAll(dir)
		os.Exit(1)
	}
	fmt.Println("not reproduced on the current tree")
}


// vacuousReplay reports why an observed outcome / constructed input cannot
// count as a demonstration of a violated postcondition ("" when it can).
func vacuousReplay(ex *vc.Exec, o *vc.Obligation, plan *vc.ReplayPlan, observed map[int]string) string {
	spec := ex.Spec
	if spec == nil {
		return ""
	}
	tag := o.Label
	if i := strings.LastIndex(tag, "@ret"); i >= 0 {
		tag = tag[:i]
	}
	// nil-ness of parameters (from the generated argument expressions) and of
	// results (from the observed outcome)
	isNil := map[string]*bool{}
	for i, n := range spec.Params {
		if i < len(plan.ArgExprs) {
			a := strings.TrimSpace(plan.ArgExprs[i])
			v := a == "nil" || strings.HasSuffix(a, "(nil)")
			isNil[n] = &v
		}
	}
	for _, rq := range spec.Requires {
		if v, ok := evalNilness(rq.Expr, isNil); ok && !v {
			return "the constructed input does not satisfy the precondition `" + rq.Text + "`: not a demonstration"
		}
	}
	for i, n := range spec.Results {
		if ob, ok := observed[i]; ok && (ob == "nil" || ob == "non-nil" || strings.HasPrefix(ob, "len=")) {
			v := ob == "nil"
			isNil[n] = &v
		}
	}
	for _, en := range spec.Ensures {
		lbl := en.Tag
		if lbl == "" {
			lbl = en.Text
		}
		if lbl != tag {
			continue
		}
		if b, ok := en.Expr.(*vc.SBin); ok && b.Op == "==>" {
			if v, ok := evalNilness(b.L, isNil); ok && !v {
				return "for the observed outcome the antecedent of the clause is false, so the clause says nothing about it: not a demonstration"
			}
		}
	}
	return ""
}

// evalNilness evaluates a boolean combination of `x == nil` / `x != nil`
// atoms; ok is false when the expression contains anything else.
func evalNilness(x vc.SExpr, isNil map[string]*bool) (val, ok bool) {
	switch n := x.(type) {
	case *vc.SBin:
		switch n.Op {
		case "&&", "||":
			l, lok := evalNilness(n.L, isNil)
			r, rok := evalNilness(n.R, isNil)
			if n.Op == "&&" {
				if (lok && !l) || (rok && !r) {
					return false, true
				}
				return l && r, lok && rok
			}
			if (lok && l) || (rok && r) {
				return true, true
			}
			return l || r, lok && rok
		case "==", "!=":
			id, isId := n.L.(*vc.SIdent)
			nl, isNl := n.R.(*vc.SIdent)
			if !isId || !isNl || nl.Name != "nil" {
				return false, false
			}
			v, known := isNil[id.Name]
			if !known || v == nil {
				return false, false
			}
			if n.Op == "==" {
				return *v, true
			}
			return !*v, true
		}
	case *vc.SUn:
		if n.Op == "!" {
			v, ok := evalNilness(n.X, isNil)
			return !v, ok
		}
	}
	return false, false
}

// deepResultRead reports a part of a result that the failed clause reads and
// the replay comparison does not cover ("" when there is none).
func deepResultRead(ex *vc.Exec, o *vc.Obligation, plan *vc.ReplayPlan) string {
	spec := ex.Spec
	if spec == nil {
		return ""
	}
	tag := o.Label
	if i := strings.LastIndex(tag, "@ret"); i >= 0 {
		tag = tag[:i]
	}
	kind := map[string]string{} // result name -> kind
	for i, n := range spec.Results {
		if i < len(plan.ResKinds) {
			k := plan.ResKinds[i]
			if k == "slice" && i < len(plan.ResTypes) && (plan.ResTypes[i] == "[]byte" || plan.ResTypes[i] == "[]uint8") {
				k = "bytes"
			}
			kind[n] = k
		}
	}
	found := ""
	var walk func(x vc.SExpr, ctx string)
	walk = func(x vc.SExpr, ctx string) {
		if found != "" || x == nil {
			return
		}
		switch n := x.(type) {
		case *vc.SIdent:
			k, isRes := kind[n.Name]
			if !isRes {
				return
			}
			switch k {
			case "bool", "int":
				return
			case "bytes":
				if ctx == "nil" || ctx == "len" || ctx == "seq" || ctx == "index" {
					return
				}
			default:
				if ctx == "nil" || (ctx == "len" && k == "slice") {
					return
				}
			}
			found = "`" + n.Name + "` beyond that"
		case *vc.SBin:
			if n.Op == "==" || n.Op == "!=" {
				if id, ok := n.R.(*vc.SIdent); ok && id.Name == "nil" {
					walk(n.L, "nil")
					return
				}
				if id, ok := n.L.(*vc.SIdent); ok && id.Name == "nil" {
					walk(n.R, "nil")
					return
				}
			}
			walk(n.L, "")
			walk(n.R, "")
		case *vc.SUn:
			walk(n.X, "")
		case *vc.SCall:
			for _, a := range n.Args {
				switch n.Fun {
				case "len":
					walk(a, "len")
				case "seq":
					walk(a, "seq")
				case "old":
					walk(a, ctx)
				default:
					walk(a, "")
				}
			}
		case *vc.SIndex:
			walk(n.X, "index")
			walk(n.I, "")
		case *vc.SSlice:
			walk(n.X, "index")
			walk(n.Lo, "")
			walk(n.Hi, "")
		case *vc.SField:
			walk(n.X, "field")
		case *vc.SQuant:
			walk(n.Body, "")
		}
	}
	for _, en := range spec.Ensures {
		lbl := en.Tag
		if lbl == "" {
			lbl = en.Text
		}
		if lbl == tag {
			walk(en.Expr, "")
		}
	}
	return found
}
