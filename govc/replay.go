package main

import "govc/vc"

// tryReplay attempts to turn the solver's counterexample into a concrete
// input for the real code.  (Model-to-test generation is added per value
// kind; when none applies the replay stays unconfirmed.)
func tryReplay(w *world, o *vc.OblResult, rp *Replay) {
	rp.Notes = append(rp.Notes, "no concrete input could be constructed from the solver output for this obligation")
}
