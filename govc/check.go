package main

import (
	"os/exec"
	"encoding/json"
	"flag"
	"fmt"
	"os"
	"path/filepath"
	"regexp"
	"sort"
	"strconv"
	"strings"
	"sync"
	"time"

	"govc/smt"
	"govc/vc"

	"golang.org/x/tools/go/ssa"
)

// PropSpec maps a property to the functions under contract and the
// obligations that count for it.
type PropSpec struct {
	Funcs       []string `json:"funcs"`       // short keys, trailing * allowed
	Kinds       []string `json:"kinds"`       // obligation kinds / "kind/label-prefix"; empty = all
	Exclude     []string `json:"exclude"`     // function keys excluded from wildcard expansion
	ExcludeK    []string `json:"exclude_kinds"` // obligations (kind or kind/label-prefix) belonging to other properties
	// Rely: obligation kinds (of the functions of this property) that are not
	// counted for this property themselves but that its proofs rely on through
	// callee contracts and loop invariants.  When one fails, the clause is
	// withdrawn and the functions relying on it are verified again without it;
	// the property is violated iff one of its own obligations then fails.
	Rely []string `json:"rely"`
	// NoClosure: do not verify relied-upon callees outside the function list.
	NoClosure bool `json:"no_closure"`
	FrameAll    bool     `json:"frame_all"`     // functions without a contract are checked against `assigns \\nothing`
	Assumptions []string `json:"assumptions"` // stated, unchecked assumptions
	Bounded     []struct {
		Name  string `json:"name"`
		Cmd   string `json:"cmd"`
		Bound string `json:"bound"`
	} `json:"bounded_standins"`
	Level string `json:"level"`
}

type knownFinding struct {
	ID          string   `json:"id"`
	Status      string   `json:"status"`
	Properties  []string `json:"properties"`
	Commit      string   `json:"commit"`
	Obligations []string `json:"obligations"`
	What        string   `json:"what"`
}

type knownFile struct {
	Findings []knownFinding `json:"findings"`
}

var retSuffix = regexp.MustCompile(`@ret\d+$`)

// stableName strips the return ordinal from an obligation name.
func stableName(n string) string { return retSuffix.ReplaceAllString(n, "") }

func loadProps(dir string) (map[string]*PropSpec, error) {
	data, err := os.ReadFile(filepath.Join(dir, "contracts", "properties.json"))
	if err != nil {
		return nil, err
	}
	m := map[string]*PropSpec{}
	if err := json.Unmarshal(data, &m); err != nil {
		return nil, err
	}
	return m, nil
}

func shortName(k string) string { return strings.TrimPrefix(k, modPath+"/") }

func kindMatches(kinds []string, o *vc.Obligation) bool {
	if len(kinds) == 0 {
		return true
	}
	full := o.Kind + "/" + o.Label
	for _, k := range kinds {
		if k == "*" || k == o.Kind {
			return true
		}
		if strings.Contains(k, "/") && strings.HasPrefix(full, strings.TrimSuffix(k, "*")) {
			return true
		}
	}
	return false
}

type sample struct {
	Obligation string  `json:"obligation"`
	Kind       string  `json:"kind"`
	Status     string  `json:"status"`
	Solver     string  `json:"solver"`
	TimeS      float64 `json:"time_s"`
	SMTNodes   int     `json:"smt_nodes"`
	Source     string  `json:"source"`
}

func cmdCheck(args []string) {
	fs := flag.NewFlagSet("check", flag.ExitOnError)
	prop := fs.String("property", "", "property id")
	tier := fs.String("tier", "", "quick|thorough")
	fs.Parse(args)
	if *tier == "" {
		*tier = os.Getenv("VERIF_TIER")
	}
	if *tier == "" {
		*tier = "quick"
	}
	seed, _ := strconv.Atoi(os.Getenv("VERIF_SEED"))
	os.Exit(runCheck(*prop, *tier, seed))
}

func runCheck(prop, tier string, seed int) int {
	t0 := time.Now()
	dir := verifDir()
	fail := func(format string, a ...interface{}) int {
		fmt.Printf("ERROR property=%s %s\n", prop, fmt.Sprintf(format, a...))
		return 2
	}
	props, err := loadProps(dir)
	if err != nil {
		return fail("cannot load properties.json: %v", err)
	}
	ps, ok := props[prop]
	if !ok {
		return fail("unknown property")
	}
	var known knownFile
	if data, err := os.ReadFile(filepath.Join(dir, "known_findings.json")); err == nil {
		if err := json.Unmarshal(data, &known); err != nil {
			return fail("known_findings.json: %v", err)
		}
	}
	openFinding := map[string]*knownFinding{}
	anyOpen := map[string]*knownFinding{} // open findings of any property, by obligation
	for i := range known.Findings {
		f := &known.Findings[i]
		if f.Status != "open" {
			continue
		}
		for _, o := range f.Obligations {
			anyOpen[o] = f
		}
		for _, p := range f.Properties {
			if p == prop {
				for _, o := range f.Obligations {
					openFinding[o] = f
				}
			}
		}
	}
	w, err := load()
	if err != nil {
		return fail("loading /repo failed: %v", err)
	}
	if err := w.loadSpecs(dir); err != nil {
		return fail("contracts: %v", err)
	}
	w.db.FrameAll = ps.FrameAll
	// expand the function list
	excl := map[string]bool{}
	for _, x := range ps.Exclude {
		excl[x] = true
	}
	seen := map[string]bool{}
	var names []string
	var missing []string
	// static callers inside the repository (for the rule on helpers below)
	hasCaller := map[*ssa.Function]bool{}
	for _, fn := range w.funcs {
		for _, b := range fn.Blocks {
			for _, ins := range b.Instrs {
				if ci, ok := ins.(ssa.CallInstruction); ok {
					if cal := ci.Common().StaticCallee(); cal != nil && cal != fn {
						hasCaller[cal] = true
					}
				}
			}
		}
	}
	var inlinedHelpers []string
	for _, pat := range ps.Funcs {
		n := 0
		for k, fn := range w.funcs {
			if !matchPat(pat, k) || excl[k] || seen[k] {
				continue
			}
			if len(fn.Blocks) == 0 || fn.Name() == "init" || strings.HasPrefix(fn.Name(), "init#") {
				continue
			}
			if sp := w.db.Lookup(fn); sp != nil && sp.Inline {
				continue
			}
			if strings.HasSuffix(pat, "*") && fn.Parent() != nil {
				continue // closures are verified inside their parents
			}
			// an unexported function without a contract is no entry point: its
			// body is executed inside every caller (callee policy 2), with the
			// arguments the callers really pass, and its obligations are checked
			// there; verifying it alone for arbitrary arguments would demand
			// more than any property states (a helper extracted by a refactoring
			// inherits the checks its caller made before the call)
			if strings.HasSuffix(pat, "*") && w.db.Lookup(fn) == nil && hasCaller[fn] && fn.Object() != nil && !fn.Object().Exported() && fn.Signature.Recv() == nil {
				inlinedHelpers = append(inlinedHelpers, k)
				continue
			}
			seen[k] = true
			names = append(names, k)
			n++
		}
		if n == 0 && !strings.HasSuffix(pat, "*") {
			if _, ok := w.funcs[pat]; !ok {
				missing = append(missing, pat)
			}
		}
	}
	sort.Strings(names)
	if len(missing) > 0 {
		return fail("functions under contract are missing from /repo: %s", strings.Join(missing, ", "))
	}
	quick := tier != "thorough"
	// generate in parallel, discharge with a global pool
	type fnRes struct {
		name string
		ex   *vc.Exec
		res  []*vc.OblResult
		gen  float64
	}
	results := make([]*fnRes, len(names))
	var wg sync.WaitGroup
	sem := make(chan struct{}, 6)
	solverSem := make(chan struct{}, 16)
	for i, name := range names {
		wg.Add(1)
		go func(i int, name string, fn *ssa.Function) {
			defer wg.Done()
			sem <- struct{}{}
			tg := time.Now()
			ex := vc.NewExec(w.prog, w.db, fn)
			ex.Generate()
			gen := time.Since(tg).Seconds()
			<-sem
			res := ex.DischargeWith(quick, solverSem)
			results[i] = &fnRes{name: name, ex: ex, res: res, gen: gen}
		}(i, name, w.funcs[name])
	}
	wg.Wait()

	// closure: the proofs above use the contracts of callees; a callee that is
	// not one of the property's own functions is verified too ("relied-upon
	// function"), transitively.  Its obligations are not counted for this
	// property; they matter only when a postcondition or invariant of it fails
	// (then the clause is withdrawn below and its users are verified again).
	relyOnly := map[string]bool{}
	shortOf := map[string]string{} // contract key -> short name
	for k, fn := range w.funcs {
		shortOf[vc.FuncKey(fn)] = k
	}
	if !ps.NoClosure {
		have := map[string]bool{}
		for _, n := range names {
			have[n] = true
		}
		from := 0
		for wave := 0; wave < 12; wave++ {
			var add []string
			for _, r := range results[from:] {
				for ck := range r.ex.Callees {
					sn, ok := shortOf[ck]
					if !ok || have[sn] {
						continue
					}
					fn := w.funcs[sn]
					if fn == nil || len(fn.Blocks) == 0 {
						continue
					}
					if sp := w.db.Lookup(fn); sp == nil || sp.Trusted || sp.Extern || sp.Inline {
						continue
					}
					have[sn] = true
					add = append(add, sn)
				}
			}
			if len(add) == 0 {
				break
			}
			sort.Strings(add)
			from = len(results)
			more := make([]*fnRes, len(add))
			var wg3 sync.WaitGroup
			for i, name := range add {
				relyOnly[name] = true
				wg3.Add(1)
				go func(i int, name string) {
					defer wg3.Done()
					sem <- struct{}{}
					tg := time.Now()
					ex := vc.NewExec(w.prog, w.db, w.funcs[name])
					ex.Generate()
					gen := time.Since(tg).Seconds()
					<-sem
					res := ex.DischargeWith(quick, solverSem)
					more[i] = &fnRes{name: name, ex: ex, res: res, gen: gen}
				}(i, name)
			}
			wg3.Wait()
			results = append(results, more...)
		}
	}

	// relied-upon clauses that failed: withdraw them and verify the functions
	// that relied on them again (until nothing new fails)
	var withdrawn []string
	relyKinds := ps.Rely
	if len(relyKinds) == 0 {
		relyKinds = []string{"post", "inv-init", "inv-keep"}
	}
	{
		ownCounted := func(o *vc.Obligation) bool {
			return kindMatches(ps.Kinds, o) && !(len(ps.ExcludeK) > 0 && kindMatches(ps.ExcludeK, o))
		}
		fullKey := map[string]int{}
		for i, r := range results {
			fullKey[vc.FuncKey(w.funcs[r.name])] = i
		}
		for round := 0; round < 8; round++ {
			rerun := map[int]bool{}
			for i, r := range results {
				for _, o := range r.res {
					counted := !relyOnly[r.name] && ownCounted(o.O)
					if o.O.Cover || o.Status == "proved" || counted || !kindMatches(relyKinds, o.O) {
						continue
					}
					var key string
					switch o.O.Kind {
					case "post":
						key = vc.FuncKey(w.funcs[r.name]) + "/post/" + stableName(o.O.Label)
					case "inv-init", "inv-keep":
						key = o.O.InKey + "/inv/" + o.O.Label
					default:
						continue
					}
					if w.db.Dropped[key] {
						continue
					}
					if w.db.Dropped == nil {
						w.db.Dropped = map[string]bool{}
					}
					w.db.Dropped[key] = true
					wd := fmt.Sprintf("%s (%s)", shortName(key), o.Status)
					if f, ok := anyOpen[shortName(vc.FuncKey(w.funcs[r.name]))+"/post/"+stableName(o.O.Label)]; ok && o.O.Kind == "post" {
						wd += " [open known finding " + f.ID + "]"
					}
					withdrawn = append(withdrawn, wd)
					if o.O.Kind == "post" {
						fk := vc.FuncKey(w.funcs[r.name])
						for j, r2 := range results {
							if r2.ex.Callees[fk] {
								rerun[j] = true
							}
						}
					} else {
						rerun[i] = true
						_ = fullKey
					}
				}
			}
			if len(rerun) == 0 {
				break
			}
			var wg2 sync.WaitGroup
			for j := range rerun {
				wg2.Add(1)
				go func(j int) {
					defer wg2.Done()
					sem <- struct{}{}
					ex := vc.NewExec(w.prog, w.db, w.funcs[results[j].name])
					ex.Generate()
					<-sem
					res := ex.DischargeWith(quick, solverSem)
					results[j] = &fnRes{name: results[j].name, ex: ex, res: res, gen: results[j].gen}
				}(j)
			}
			wg2.Wait()
		}
		sort.Strings(withdrawn)
		for _, wd := range withdrawn {
			fmt.Printf("NOTE property=%s relied-upon clause %s does not hold; the functions relying on it were verified again without it\n", prop, wd)
		}
	}

	// collect
	var problems []string
	var unreachable []string // returns unreachable under the assumed contracts (soft covers)
	nObl, nDis := 0, 0
	bySolver := map[string]int{}
	solverTime := 0.0
	var samples, slowest []sample
	var undecided, violations []*vc.OblResult
	var knownHit []string
	externs := map[string]bool{}
	inlined := map[string]bool{}
	callees := map[string]bool{}
	withSpec := 0
	covers := 0
	frameSites := 0
	autoInvs := 0
	loopsTotal, loopsTerm := 0, 0
	var notes []string
	crossStats := map[string]map[string]int{}
	var reliedFns []string
	for _, r := range results {
		for _, p := range r.ex.Probs {
			problems = append(problems, fmt.Sprintf("%s: %s", r.name, p.Msg))
		}
		for _, n := range r.ex.Notes {
			notes = append(notes, fmt.Sprintf("%s: %s", r.name, n))
		}
		autoInvs += r.ex.AutoInvs
		loopsTotal += r.ex.LoopsTotal
		loopsTerm += r.ex.LoopsTerminating
		if r.ex.Spec != nil {
			withSpec++
		}
		frameSites += r.ex.FrameSites
		for k := range r.ex.Externs {
			externs[k] = true
		}
		for k := range r.ex.Inlined {
			inlined[k] = true
		}
		for k := range r.ex.Callees {
			callees[k] = true
		}
		if relyOnly[r.name] {
			// relied-upon function: verified for the closure above, nothing of it
			// is counted for this property (vacuity covers of its own contract
			// belong to the property that owns it)
			reliedFns = append(reliedFns, r.name)
			for _, o := range r.res {
				solverTime += o.Time
			}
			continue
		}
		// a cover obligation is checked under the assumption of every earlier
		// obligation of the function; when one of those failed, an unsatisfiable
		// cover only repeats that failure and is not a contract bug
		anyFailed := false
		for _, o := range r.res {
			if !o.O.Cover && o.Status != "proved" {
				anyFailed = true
			}
		}
		for _, o := range r.res {
			if !o.O.Cover && (!kindMatches(ps.Kinds, o.O) || (len(ps.ExcludeK) > 0 && kindMatches(ps.ExcludeK, o.O))) {
				continue
			}
			solverTime += o.Time
			if o.O.Cover {
				covers++
				if o.O.Soft {
					if o.Status == "cover-failed" && !anyFailed {
						unreachable = append(unreachable, fmt.Sprintf("%s (%s:%d)", stableName(o.O.Name()), strings.TrimPrefix(o.O.Pos.Filename, "/repo/"), o.O.Pos.Line))
					}
					continue
				}
				if o.Status == "cover-failed" && !anyFailed {
					problems = append(problems, fmt.Sprintf("%s: vacuity guard failed: %s (contradictory assumptions)", r.name, o.O.Name()))
				}
				continue
			}
			name := stableName(o.O.Name())
			if f, isKnown := openFinding[name]; isKnown && o.Status != "proved" {
				knownHit = append(knownHit, fmt.Sprintf("KNOWN-FINDING: property=%s %s [%s: %s]", prop, f.What, f.ID, name))
				continue
			}
			nObl++
			switch o.Status {
			case "proved":
				nDis++
				bySolver[o.Solver]++
				for sv, stt := range o.Cross {
					if crossStats[sv] == nil {
						crossStats[sv] = map[string]int{}
					}
					crossStats[sv][stt]++
				}
			case "failed":
				violations = append(violations, o)
			default:
				undecided = append(undecided, o)
			}
			src := ""
			if o.O.Pos.IsValid() {
				src = fmt.Sprintf("%s:%d", strings.TrimPrefix(o.O.Pos.Filename, "/repo/"), o.O.Pos.Line)
			}
			smp := sample{Obligation: o.O.Name(), Kind: o.O.Kind, Status: o.Status, Solver: o.Solver, TimeS: round3(o.Time), SMTNodes: o.Size, Source: src}
			if len(samples) < 12 || o.Status != "proved" {
				samples = append(samples, smp)
			}
			if o.Status == "proved" {
				// the five slowest proved obligations are always reported: they
				// are the margin against the solver timeout
				slowest = append(slowest, smp)
				sort.SliceStable(slowest, func(i, j int) bool { return slowest[i].TimeS > slowest[j].TimeS })
				if len(slowest) > 5 {
					slowest = slowest[:5]
				}
			}
		}
	}
	sort.Strings(knownHit)
	for _, k := range dedupe(knownHit) {
		fmt.Println(k)
	}
	exit := 0
	outDir := filepath.Join(dir, "out", "replay")
	os.MkdirAll(outDir, 0o755)
	nviol := 0
	exOf := map[*vc.OblResult]*vc.Exec{}
	for _, r := range results {
		for _, o := range r.res {
			exOf[o] = r.ex
		}
	}
	report := func(o *vc.OblResult, why string) {
		nviol++
		path := filepath.Join(outDir, fmt.Sprintf("%s_%d.json", prop, nviol))
		rp := buildReplay(w, prop, o, exOf[o], why)
		data, _ := json.MarshalIndent(rp, "", " ")
		os.WriteFile(path, data, 0o644)
		suffix := ""
		if !rp.Confirmed {
			suffix = " no-failing-input-found"
		}
		fmt.Printf("VIOLATION property=%s replay=%s obligation=%q%s\n", prop, path, o.O.Name(), suffix)
	}
	if quick {
		replayGlobalDeadline = time.Now().Add(240 * time.Second)
	} else {
		replayGlobalDeadline = time.Now().Add(900 * time.Second)
	}
	for _, o := range violations {
		report(o, "solver returned a counterexample (sat)")
		exit = 1
	}
	for _, o := range undecided {
		report(o, "obligation no longer discharges (solver: "+o.Output+")")
		exit = 1
	}
	if len(problems) > 0 {
		for _, p := range dedupe(problems) {
			fmt.Printf("ERROR property=%s %s\n", prop, p)
		}
		if exit == 0 {
			exit = 2
		}
	}
	if nObl == 0 && exit == 0 {
		fmt.Printf("ERROR property=%s no obligations were generated\n", prop)
		exit = 2
	}
	// evidence
	var trusted []string
	for k := range externs {
		if strings.HasPrefix(k, "assumed definition") {
			trusted = append(trusted, k)
			continue
		}
		trusted = append(trusted, "assumed contract of external: "+k)
	}
	sort.Strings(trusted)
	trusted = append([]string{
		"go/types + go/ssa (x/tools v0.29.0) represent the semantics of the Go source faithfully",
		"govc's SSA-to-SMT semantics (bit-vector integers of exact width, region memory model; DESIGN.md 2.4)",
		"SMT solvers z3 5.1.0 / z3 4.8.12 / cvc5 1.0.3 (unsat answers)",
	}, trusted...)
	level := ps.Level
	if level == "" {
		level = "proof"
	}
	cov := map[string]interface{}{
		"obligations":              nObl,
		"discharged":               nDis,
		"checker_cmd":              fmt.Sprintf("/verif/bin/govc check --property %s --tier %s", prop, tier),
		"trusted_base":             trusted,
		"functions_under_contract": names,
		"relied_upon_functions":    reliedFns,
		"functions_with_contract":  withSpec,
		"contracted_callees_used":  sortedKeys(callees),
		"inlined_repo_functions":   sortedKeys(inlined),
		"by_solver":                bySolver,
		"solver_time_s":            round3(solverTime),
		"vacuity_covers_checked":   covers,
		"returns_unreachable_under_contracts": unreachable,
		"write_sites_examined":     frameSites,
		"undecided":                len(undecided),
		"failed":                   len(violations),
		"known_findings_reported":  len(dedupe(knownHit)),
		"relied_clauses_withdrawn": withdrawn,
		"helpers_verified_inside_their_callers": inlinedHelpers,
		"samples":                  samples,
		"slowest_proved":           slowest,
		"contract_files":           w.db.Files,
		"contract_file_notes":      w.contractNotes,
		"derived_loop_invariants":  autoInvs,
		"loops":                    map[string]interface{}{"executed": loopsTotal, "with_termination_argument": loopsTerm, "rule": "a loop has a termination argument when it is unrolled under an unwinding obligation, or its test compares a counter that strictly increases with a bound proved unchanged at every back edge (variant obligation); others are listed in notes"},
		"notes":                    dedupe(notes),
		"rule":                     "one obligation per potentially panicking instruction, per requires at a call site, per ensures at each return, per loop invariant (init/keep); an obligation is discharged when the negated goal is unsat",
	}
	if len(ps.Bounded) > 0 {
		cov["bounded_standins"] = ps.Bounded
	}
	if tier == "thorough" {
		cov["solver_cross_check"] = crossStats
		cov["solver_cross_check_rule"] = "every obligation proved by one solver is also given to the other two (20 s each); a sat answer from any of them makes the obligation fail; unknown/timeout answers are recorded only"
		if exit == 0 && os.Getenv("GOVC_NO_CORPUS") == "" {
			corpus := runCorpus(dir, prop)
			cov["must_fail_corpus"] = corpus
			for _, c := range corpus {
				if c.Status == "missed" {
					fmt.Printf("SELFTEST-MISS property=%s the seeded change %s is not detected by this check\n", prop, c.Case)
				}
			}
		}
	}
	assumptions := append([]string{
		"64-bit int; byte strings and lists shorter than 2 GiB",
		"distinct pointer parameters of the same type and distinct access paths to written pre-existing structs do not alias",
		"external functions behave as their assumed contracts state (listed in coverage.trusted_base) and neither panic nor write through slice arguments unless stated",
	}, ps.Assumptions...)
	ev := map[string]interface{}{
		"property_id": prop,
		"tier":        tier,
		"seed":        seed,
		"level":       level,
		"coverage":    cov,
		"assumptions": assumptions,
		"wall_s":      round3(time.Since(t0).Seconds()),
		"violations":  nviol,
	}
	if len(unreachable) > 0 {
		notes = append(notes, fmt.Sprintf("%d return statement(s) are unreachable under the preconditions and assumed contracts (dead defensive code, or a contradictory assumed contract); their postconditions hold vacuously; listed in evidence coverage.returns_unreachable_under_contracts", len(unreachable)))
	}
	for _, n := range dedupe(notes) {
		fmt.Printf("NOTE property=%s %s\n", prop, n)
	}
	os.MkdirAll(filepath.Join(dir, "evidence"), 0o755)
	data, _ := json.MarshalIndent(ev, "", " ")
	os.WriteFile(filepath.Join(dir, "evidence", prop+".json"), data, 0o644)
	fmt.Printf("property=%s tier=%s functions=%d relied=%d obligations=%d discharged=%d failed=%d undecided=%d known=%d problems=%d wall=%.1fs\n",
		prop, tier, len(names), len(reliedFns), nObl, nDis, len(violations), len(undecided), len(dedupe(knownHit)), len(dedupe(problems)), time.Since(t0).Seconds())
	return exit
}

func round3(f float64) float64 { return float64(int(f*1000+0.5)) / 1000 }

func dedupe(xs []string) []string {
	seen := map[string]bool{}
	var out []string
	for _, x := range xs {
		if !seen[x] {
			seen[x] = true
			out = append(out, x)
		}
	}
	return out
}

func sortedKeys(m map[string]bool) []string {
	var out []string
	for k := range m {
		out = append(out, k)
	}
	sort.Strings(out)
	return out
}

// Replay is what a replay file contains.
type Replay struct {
	Property   string   `json:"property"`
	Obligation string   `json:"obligation"`
	Kind       string   `json:"kind"`
	Source     string   `json:"source"`
	Reason     string   `json:"reason"`
	Solver     string   `json:"solver"`
	SolverOut  string   `json:"solver_output"`
	Confirmed  bool     `json:"confirmed_on_real_code"`
	Test       string   `json:"generated_test,omitempty"`
	TestOutput string   `json:"test_output,omitempty"`
	Script     string   `json:"smt_script,omitempty"`
	Notes      []string `json:"notes,omitempty"`
	Package    string   `json:"package,omitempty"`   // directory of the package under test, relative to the repository
	Expect     []string `json:"expected_output_lines,omitempty"` // GOVC-REPLAY lines that show the violation
}

func buildReplay(w *world, prop string, o *vc.OblResult, ex *vc.Exec, why string) *Replay {
	rp := &Replay{Property: prop, Obligation: o.O.Name(), Kind: o.O.Kind, Reason: why, Solver: o.Solver}
	if o.O.Pos.IsValid() {
		rp.Source = fmt.Sprintf("%s:%d", o.O.Pos.Filename, o.O.Pos.Line)
	}
	out := o.Output
	if len(out) > 4000 {
		out = out[:4000]
	}
	rp.SolverOut = out
	if len(o.Script) < 400000 {
		rp.Script = o.Script
	}
	tryReplay(w, o, ex, rp)
	return rp
}

var _ = smt.Size


// ---- must-fail corpus (thorough tier) ----

type corpusResult struct {
	Case            string `json:"case"`
	Status          string `json:"status"` // detected | missed | patch-does-not-apply | error
	Violations      int    `json:"violations"`
	ReplayConfirmed int    `json:"replay_confirmed"`
	First           string `json:"first_violation,omitempty"`
}

// runCorpus applies every canary (reverse diff of a fix) and seeded change
// recorded for prop to a scratch copy of the repository outside /repo and
// /verif, runs this property's quick check on the copy and expects a
// VIOLATION.  The copy is removed afterwards.
func runCorpus(dir, prop string) []corpusResult {
	var out []corpusResult
	type cse struct{ name, patch string }
	var cases []cse
	var known knownFile
	if data, err := os.ReadFile(filepath.Join(dir, "known_findings.json")); err == nil {
		json.Unmarshal(data, &known)
	}
	canaries, _ := filepath.Glob(filepath.Join(dir, "selftest", "mutants", "canary_*.patch"))
	sort.Strings(canaries)
	for _, f := range canaries {
		base := strings.TrimSuffix(filepath.Base(f), ".patch")
		parts := strings.SplitN(base, "_", 3)
		if len(parts) < 2 {
			continue
		}
		for _, k := range known.Findings {
			if k.ID != parts[1] {
				continue
			}
			for _, p := range k.Properties {
				if p == prop {
					cases = append(cases, cse{base, f})
				}
			}
		}
	}
	// engine canaries (engine_<property>_<what>.patch): mutations an earlier
	// engine version proved vacuously
	engines, _ := filepath.Glob(filepath.Join(dir, "selftest", "mutants", "engine_"+prop+"_*.patch"))
	sort.Strings(engines)
	for _, f := range engines {
		cases = append(cases, cse{strings.TrimSuffix(filepath.Base(f), ".patch"), f})
	}
	seeds, _ := filepath.Glob(filepath.Join(dir, "seeded", "*", "meta.json"))
	sort.Strings(seeds)
	for _, m := range seeds {
		var meta struct {
			Seed     string `json:"seed"`
			Property string `json:"property"`
		}
		if data, err := os.ReadFile(m); err == nil && json.Unmarshal(data, &meta) == nil && meta.Property == prop {
			cases = append(cases, cse{meta.Seed, filepath.Join(filepath.Dir(m), "patch.diff")})
		}
	}
	if len(cases) == 0 {
		return out
	}
	self, err := os.Executable()
	if err != nil {
		return append(out, corpusResult{Case: "*", Status: "error: " + err.Error()})
	}
	for _, cs := range cases {
		res := corpusResult{Case: cs.name}
		scratch, err := os.MkdirTemp("", "govc_corpus_")
		if err != nil {
			res.Status = "error: " + err.Error()
			out = append(out, res)
			continue
		}
		func() {
			defer os.RemoveAll(scratch)
			copyDir := filepath.Join(scratch, "repo")
			if o, err := exec.Command("cp", "-a", repo, copyDir).CombinedOutput(); err != nil {
				res.Status = "error: copy: " + strings.TrimSpace(string(o))
				return
			}
			os.RemoveAll(filepath.Join(copyDir, ".git"))
			ap := exec.Command("patch", "-p1", "-s", "--no-backup-if-mismatch", "-i", cs.patch)
			ap.Dir = copyDir
			if o, err := ap.CombinedOutput(); err != nil {
				res.Status = "patch-does-not-apply"
				_ = o
				return
			}
			vd := filepath.Join(scratch, "verif")
			os.MkdirAll(vd, 0o755)
			os.Symlink(filepath.Join(dir, "contracts"), filepath.Join(vd, "contracts"))
			if data, err := os.ReadFile(filepath.Join(dir, "known_findings.json")); err == nil {
				os.WriteFile(filepath.Join(vd, "known_findings.json"), data, 0o644)
			}
			cmd := exec.Command(self, "check", "--property", prop, "--tier", "quick")
			cmd.Env = append(os.Environ(), "GOVC_REPO="+copyDir, "VERIF_DIR="+vd, "GOVC_NO_CORPUS=1")
			o, _ := cmd.CombinedOutput()
			for _, l := range strings.Split(string(o), "\n") {
				if strings.HasPrefix(l, "VIOLATION ") {
					res.Violations++
					if !strings.HasSuffix(strings.TrimSpace(l), "no-failing-input-found") {
						res.ReplayConfirmed++
					}
					if res.First == "" {
						l = strings.ReplaceAll(l, scratch, "<scratch>")
						if len(l) > 300 {
							l = l[:300]
						}
						res.First = l
					}
				}
			}
			if res.Violations > 0 {
				res.Status = "detected"
			} else {
				res.Status = "missed"
			}
		}()
		out = append(out, res)
	}
	return out
}
