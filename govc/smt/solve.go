package smt

import (
	"bytes"
	"context"
	"os/exec"
	"strings"
	"time"
)

// Result of a solver run.
type Result struct {
	Status string // "unsat", "sat", "unknown", "timeout", "error"
	Solver string
	Time   float64
	Output string
}

// Solvers available in this sandbox, in portfolio order.
var Solvers = []struct {
	Name string
	Cmd  []string // arguments before the timeout / file
}{
	{"z3-new", []string{"z3-new", "-smt2"}},
	{"z3", []string{"z3", "-smt2"}},
	{"cvc5", []string{"cvc5", "--lang=smt2"}},
}

// RunSolver runs one named solver on a script with a timeout.
func RunSolver(name string, script string, timeout time.Duration) Result {
	var argv []string
	switch name {
	case "z3-new":
		argv = []string{"z3-new", "-smt2", "-in"}
	case "z3-new-sat":
		// the same binary with its SAT-based EUF/bit-vector core: a different
		// search that decides some offset-arithmetic goals several times faster
		argv = []string{"z3-new", "sat.euf=true", "tactic.default_tactic=sat", "-smt2", "-in"}
	case "z3":
		argv = []string{"z3", "-smt2", "-in"}
	case "cvc5":
		argv = []string{"cvc5", "--lang=smt2", "--incremental"}
	default:
		return Result{Status: "error", Solver: name, Output: "unknown solver"}
	}
	ctx, cancel := context.WithTimeout(context.Background(), timeout)
	defer cancel()
	cmd := exec.CommandContext(ctx, argv[0], argv[1:]...)
	cmd.Stdin = strings.NewReader(script)
	var out bytes.Buffer
	cmd.Stdout = &out
	cmd.Stderr = &out
	t0 := time.Now()
	err := cmd.Run()
	el := time.Since(t0).Seconds()
	text := out.String()
	first := strings.TrimSpace(text)
	if i := strings.IndexByte(first, '\n'); i >= 0 {
		first = strings.TrimSpace(first[:i])
	}
	r := Result{Solver: name, Time: el, Output: text}
	switch first {
	case "unsat", "sat", "unknown":
		r.Status = first
		return r
	}
	if ctx.Err() != nil {
		r.Status = "timeout"
		return r
	}
	r.Status = "error"
	if err != nil && text == "" {
		r.Output = err.Error()
	}
	return r
}

// Portfolio tries z3-new first and, when that is inconclusive, z3 and cvc5 in
// parallel.  The first conclusive answer wins.
func Portfolio(script string, first, rest time.Duration) (Result, []Result) {
	var all []Result
	r := RunSolver("z3-new", script, first)
	all = append(all, r)
	if r.Status == "unsat" || r.Status == "sat" {
		return r, all
	}
	ch := make(chan Result, 2)
	for _, s := range []string{"z3", "cvc5"} {
		go func(s string) { ch <- RunSolver(s, script, rest) }(s)
	}
	var best *Result
	for i := 0; i < 2; i++ {
		x := <-ch
		all = append(all, x)
		if best == nil && (x.Status == "unsat" || x.Status == "sat") {
			y := x
			best = &y
		}
	}
	if best != nil {
		return *best, all
	}
	// inconclusive: report the most informative
	for _, x := range all {
		if x.Status == "unknown" {
			return x, all
		}
	}
	return all[0], all
}
