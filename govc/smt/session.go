package smt

import (
	"bufio"
	"fmt"
	"io"
	"os/exec"
	"strings"
	"time"
)

// Session is an interactive solver process (z3-new) used to query a model.
type Session struct {
	cmd *exec.Cmd
	in  io.WriteCloser
	out *bufio.Reader
}

// StartSession launches z3-new, loads the script (with model production) and
// runs check-sat; it returns the status.
func StartSession(script string, timeout time.Duration) (*Session, string, error) {
	cmd := exec.Command("z3-new", "-smt2", "-in", fmt.Sprintf("-T:%d", int(timeout.Seconds())))
	in, err := cmd.StdinPipe()
	if err != nil {
		return nil, "", err
	}
	outp, err := cmd.StdoutPipe()
	if err != nil {
		return nil, "", err
	}
	cmd.Stderr = cmd.Stdout
	if err := cmd.Start(); err != nil {
		return nil, "", err
	}
	s := &Session{cmd: cmd, in: in, out: bufio.NewReader(outp)}
	// strip the trailing (check-sat) of the script: we issue it ourselves
	script = strings.Replace(script, "(check-sat)\n", "", 1)
	io.WriteString(in, "(set-option :produce-models true)\n")
	io.WriteString(in, script)
	io.WriteString(in, "(check-sat)\n")
	line, err := s.out.ReadString('\n')
	if err != nil {
		s.Close()
		return nil, "", err
	}
	return s, strings.TrimSpace(line), nil
}

// Eval returns the model value of a rendered term (as SMT-LIB text).
func (s *Session) Eval(term string) (string, error) {
	io.WriteString(s.in, "(get-value ("+term+"))\n")
	resp, err := s.readSexp()
	if err != nil {
		return "", err
	}
	resp = strings.TrimSpace(resp)
	if strings.HasPrefix(resp, "(error") {
		return "", fmt.Errorf("solver: %s", resp)
	}
	// ((term value))
	inner := strings.TrimSuffix(strings.TrimPrefix(resp, "(("), "))")
	// the value is the last s-expression / atom
	idx := splitLast(inner)
	return strings.TrimSpace(inner[idx:]), nil
}

func splitLast(s string) int {
	s = strings.TrimRight(s, " \n")
	if strings.HasSuffix(s, ")") {
		depth := 0
		for i := len(s) - 1; i >= 0; i-- {
			switch s[i] {
			case ')':
				depth++
			case '(':
				depth--
				if depth == 0 {
					return i
				}
			}
		}
		return 0
	}
	i := strings.LastIndexAny(s, " \n")
	return i + 1
}

func (s *Session) readSexp() (string, error) {
	var sb strings.Builder
	depth := 0
	started := false
	for {
		r, _, err := s.out.ReadRune()
		if err != nil {
			return sb.String(), err
		}
		sb.WriteRune(r)
		switch r {
		case '(':
			depth++
			started = true
		case ')':
			depth--
		}
		if started && depth == 0 {
			return sb.String(), nil
		}
	}
}

// Close terminates the solver.
func (s *Session) Close() {
	io.WriteString(s.in, "(exit)\n")
	s.in.Close()
	done := make(chan struct{})
	go func() { s.cmd.Wait(); close(done) }()
	select {
	case <-done:
	case <-time.After(2 * time.Second):
		s.cmd.Process.Kill()
	}
}

// ParseBV parses #x.. / #b.. into a value.
func ParseBV(s string) (uint64, bool) {
	s = strings.TrimSpace(s)
	var v uint64
	switch {
	case strings.HasPrefix(s, "#x"):
		for _, ch := range s[2:] {
			var d uint64
			switch {
			case ch >= '0' && ch <= '9':
				d = uint64(ch - '0')
			case ch >= 'a' && ch <= 'f':
				d = uint64(ch-'a') + 10
			case ch >= 'A' && ch <= 'F':
				d = uint64(ch-'A') + 10
			default:
				return 0, false
			}
			v = v<<4 | d
		}
		return v, true
	case strings.HasPrefix(s, "#b"):
		for _, ch := range s[2:] {
			if ch != '0' && ch != '1' {
				return 0, false
			}
			v = v<<1 | uint64(ch-'0')
		}
		return v, true
	}
	return 0, false
}

// CheckWith pushes a frame, asserts the given formulas and checks; when the
// result is not sat the frame is popped again.
func (s *Session) CheckWith(asserts []string) bool {
	io.WriteString(s.in, "(push)\n")
	for _, a := range asserts {
		io.WriteString(s.in, "(assert "+a+")\n")
	}
	io.WriteString(s.in, "(check-sat)\n")
	status := ""
	for {
		line, err := s.out.ReadString('\n')
		if err != nil {
			return false
		}
		l := strings.TrimSpace(line)
		if l == "sat" || l == "unsat" || l == "unknown" || l == "timeout" {
			status = l
			break
		}
	}
	if status == "sat" {
		return true
	}
	io.WriteString(s.in, "(pop)\n")
	// re-establish the model of the outer frame
	io.WriteString(s.in, "(check-sat)\n")
	s.out.ReadString('\n')
	return false
}
