// Package smt is a small hash-consed SMT-LIB2 term layer with light
// simplification.  Integers of Go programs are bit-vectors of their exact
// width; references, regions and type tags are mathematical Int; everything
// else is an uninterpreted sort.
package smt

import (
	"strconv"
	"fmt"
	"math/bits"
	"sort"
	"strings"
)

// Sort of a term.
type Sort struct {
	Name string // "Bool", "Int", "BV", or an uninterpreted sort name
	W    int    // width for BV
}

var (
	Bool = Sort{Name: "Bool"}
	Int  = Sort{Name: "Int"}
)

// BV returns the bit-vector sort of width w.
func BV(w int) Sort { return Sort{Name: "BV", W: w} }

// U returns an uninterpreted sort.
func U(name string) Sort { return Sort{Name: name} }

func (s Sort) String() string {
	if s.Name == "BV" {
		return fmt.Sprintf("(_ BitVec %d)", s.W)
	}
	return s.Name
}

func (s Sort) IsBV() bool   { return s.Name == "BV" }
func (s Sort) IsBool() bool { return s.Name == "Bool" }
func (s Sort) IsInt() bool  { return s.Name == "Int" }
func (s Sort) IsUninterp() bool {
	return s.Name != "BV" && s.Name != "Bool" && s.Name != "Int"
}

// Term is an immutable, hash-consed SMT term.
type Term struct {
	ID   int
	Op   string // "true","false","bv","int","sym","app", builtin op names, "forall","exists"
	Name string // symbol / function name
	Args []*Term
	Sort Sort
	Val  uint64  // bv constant (masked) or int constant (as int64 bits)
	Vars []*Term // bound variables of a quantifier
	P1   int     // extract hi / extend amount
	P2   int     // extract lo
}

// FuncSig is the signature of a declared function symbol.
type FuncSig struct {
	Name string
	Args []Sort
	Ret  Sort
}

// Ctx interns terms and records declarations.
type Ctx struct {
	bvarMemo  map[int]bool
	substMemo map[string]*Term
	tab    map[string]*Term
	next   int
	Funcs  map[string]*FuncSig
	fresh  map[string]int
	Sorts  map[string]bool
	tt, ff *Term
	// FreshParams: see Fresh.
	FreshParams []*Term
}

func NewCtx() *Ctx {
	c := &Ctx{tab: map[string]*Term{}, Funcs: map[string]*FuncSig{}, fresh: map[string]int{}, Sorts: map[string]bool{}}
	c.tt = c.mk(&Term{Op: "true", Sort: Bool})
	c.ff = c.mk(&Term{Op: "false", Sort: Bool})
	return c
}

func (c *Ctx) key(t *Term) string {
	b := make([]byte, 0, 64+12*len(t.Args))
	b = append(b, t.Op...)
	b = append(b, '|')
	b = append(b, t.Name...)
	b = append(b, '|')
	b = append(b, t.Sort.Name...)
	b = append(b, '|')
	b = strconv.AppendInt(b, int64(t.Sort.W), 10)
	b = append(b, '|')
	b = strconv.AppendUint(b, uint64(t.Val), 10)
	b = append(b, '|')
	b = strconv.AppendInt(b, int64(t.P1), 10)
	b = append(b, '|')
	b = strconv.AppendInt(b, int64(t.P2), 10)
	for _, a := range t.Args {
		b = append(b, ',')
		b = strconv.AppendInt(b, int64(a.ID), 10)
	}
	for _, v := range t.Vars {
		b = append(b, ';')
		b = strconv.AppendInt(b, int64(v.ID), 10)
	}
	return string(b)
}

func (c *Ctx) mk(t *Term) *Term {
	k := c.key(t)
	if x, ok := c.tab[k]; ok {
		return x
	}
	c.next++
	t.ID = c.next
	c.tab[k] = t
	if t.Sort.IsUninterp() {
		c.Sorts[t.Sort.Name] = true
	}
	return t
}

func (c *Ctx) True() *Term  { return c.tt }
func (c *Ctx) False() *Term { return c.ff }
func (c *Ctx) BoolC(b bool) *Term {
	if b {
		return c.tt
	}
	return c.ff
}

func mask(w int) uint64 {
	if w >= 64 {
		return ^uint64(0)
	}
	return (uint64(1) << uint(w)) - 1
}

// BVC returns a bit-vector constant.
func (c *Ctx) BVC(v uint64, w int) *Term {
	return c.mk(&Term{Op: "bv", Sort: BV(w), Val: v & mask(w)})
}

// IntC returns an Int constant.
func (c *Ctx) IntC(v int64) *Term {
	return c.mk(&Term{Op: "int", Sort: Int, Val: uint64(v)})
}

func (t *Term) IsConst() bool {
	return t.Op == "bv" || t.Op == "int" || t.Op == "true" || t.Op == "false"
}
func (t *Term) IsTrue() bool  { return t.Op == "true" }
func (t *Term) IsFalse() bool { return t.Op == "false" }

// SVal returns the signed value of a bv constant.
func (t *Term) SVal() int64 {
	w := t.Sort.W
	v := t.Val
	if w < 64 && v&(1<<uint(w-1)) != 0 {
		v |= ^mask(w)
	}
	return int64(v)
}

// Sym returns (declaring if needed) a constant symbol.
func (c *Ctx) Sym(name string, s Sort) *Term {
	if f, ok := c.Funcs[name]; ok {
		if len(f.Args) != 0 || f.Ret != s {
			panic("smt: symbol redeclared with different sort: " + name)
		}
	} else {
		c.Funcs[name] = &FuncSig{Name: name, Ret: s}
	}
	return c.mk(&Term{Op: "sym", Name: name, Sort: s})
}

// Fresh returns a fresh symbol with the given prefix.  While FreshParams is
// non-empty (inside the body of a loop whose invariant is derived by
// generalising over the loop counter) the symbol is a fresh function applied
// to those parameters, i.e. a Skolem function of the enclosing counters.
func (c *Ctx) Fresh(prefix string, s Sort) *Term {
	prefix = Sanitize(prefix)
	for {
		c.fresh[prefix]++
		n := fmt.Sprintf("%s!%d", prefix, c.fresh[prefix])
		if _, ok := c.Funcs[n]; !ok {
			if len(c.FreshParams) > 0 {
				return c.App(n, s, c.FreshParams...)
			}
			return c.Sym(n, s)
		}
	}
}

// FreshName returns a fresh function name.
func (c *Ctx) FreshName(prefix string) string {
	prefix = Sanitize(prefix)
	for {
		c.fresh[prefix]++
		n := fmt.Sprintf("%s!%d", prefix, c.fresh[prefix])
		if _, ok := c.Funcs[n]; !ok {
			return n
		}
	}
}

// BoundVar returns a variable for use under a quantifier (not declared).
func (c *Ctx) BoundVar(prefix string, s Sort) *Term {
	c.fresh["?"+prefix]++
	n := fmt.Sprintf("?%s!%d", Sanitize(prefix), c.fresh["?"+prefix])
	return c.mk(&Term{Op: "bvar", Name: n, Sort: s})
}

// Sanitize makes a string usable inside an SMT-LIB simple symbol.
func Sanitize(s string) string {
	var sb strings.Builder
	for _, r := range s {
		switch {
		case r >= 'a' && r <= 'z', r >= 'A' && r <= 'Z', r >= '0' && r <= '9', r == '_', r == '.', r == '!', r == '$':
			sb.WriteRune(r)
		case r == '*':
			sb.WriteString("P")
		case r == '[' || r == ']':
			sb.WriteString("_")
		default:
			sb.WriteRune('_')
		}
	}
	if sb.Len() == 0 {
		return "x"
	}
	return sb.String()
}

// App applies (declaring if needed) an uninterpreted function.
func (c *Ctx) App(name string, ret Sort, args ...*Term) *Term {
	if len(args) == 0 {
		return c.Sym(name, ret)
	}
	if f, ok := c.Funcs[name]; ok {
		if len(f.Args) != len(args) || f.Ret != ret {
			panic(fmt.Sprintf("smt: function %s redeclared (%v -> %v) vs (%d args -> %v)", name, f.Args, f.Ret, len(args), ret))
		}
		for i := range args {
			if f.Args[i] != args[i].Sort {
				panic(fmt.Sprintf("smt: function %s arg %d sort %v vs %v", name, i, f.Args[i], args[i].Sort))
			}
		}
	} else {
		sig := &FuncSig{Name: name, Ret: ret}
		for _, a := range args {
			sig.Args = append(sig.Args, a.Sort)
		}
		c.Funcs[name] = sig
	}
	return c.mk(&Term{Op: "app", Name: name, Args: args, Sort: ret})
}

// ---- booleans ----

func (c *Ctx) Not(a *Term) *Term {
	switch a.Op {
	case "true":
		return c.ff
	case "false":
		return c.tt
	case "not":
		return a.Args[0]
	}
	return c.mk(&Term{Op: "not", Args: []*Term{a}, Sort: Bool})
}

func (c *Ctx) nary(op string, unit, zero *Term, xs []*Term) *Term {
	var out []*Term
	seen := map[int]bool{}
	var add func(x *Term) bool
	add = func(x *Term) bool {
		if x == zero {
			return false
		}
		if x == unit {
			return true
		}
		if x.Op == op {
			for _, y := range x.Args {
				if !add(y) {
					return false
				}
			}
			return true
		}
		if seen[x.ID] {
			return true
		}
		seen[x.ID] = true
		out = append(out, x)
		return true
	}
	for _, x := range xs {
		if !add(x) {
			return zero
		}
	}
	for _, x := range out {
		if x.Op == "not" && seen[x.Args[0].ID] {
			return zero
		}
	}
	switch len(out) {
	case 0:
		return unit
	case 1:
		return out[0]
	}
	return c.mk(&Term{Op: op, Args: out, Sort: Bool})
}

func (c *Ctx) And(xs ...*Term) *Term { return c.nary("and", c.tt, c.ff, xs) }
func (c *Ctx) Or(xs ...*Term) *Term  { return c.nary("or", c.ff, c.tt, xs) }
func (c *Ctx) Implies(a, b *Term) *Term {
	return c.Or(c.Not(a), b)
}
func (c *Ctx) Iff(a, b *Term) *Term { return c.Eq(a, b) }

func (c *Ctx) Ite(cond, a, b *Term) *Term {
	if cond.IsTrue() {
		return a
	}
	if cond.IsFalse() {
		return b
	}
	if a == b {
		return a
	}
	if a.Sort != b.Sort {
		panic(fmt.Sprintf("smt: ite sort mismatch %v vs %v (%s / %s)", a.Sort, b.Sort, a, b))
	}
	if cond.Op == "not" {
		return c.Ite(cond.Args[0], b, a)
	}
	if a.Sort.IsBool() {
		if a.IsTrue() && b.IsFalse() {
			return cond
		}
		if a.IsFalse() && b.IsTrue() {
			return c.Not(cond)
		}
		if a.IsTrue() {
			return c.Or(cond, b)
		}
		if a.IsFalse() {
			return c.And(c.Not(cond), b)
		}
		if b.IsTrue() {
			return c.Or(c.Not(cond), a)
		}
		if b.IsFalse() {
			return c.And(cond, a)
		}
	}
	// ite(c, x, ite(c, y, z)) = ite(c, x, z)
	if b.Op == "ite" && b.Args[0] == cond {
		return c.Ite(cond, a, b.Args[2])
	}
	if a.Op == "ite" && a.Args[0] == cond {
		return c.Ite(cond, a.Args[1], b)
	}
	return c.mk(&Term{Op: "ite", Args: []*Term{cond, a, b}, Sort: a.Sort})
}

func (c *Ctx) Eq(a, b *Term) *Term {
	if a == b {
		return c.tt
	}
	if a.Sort != b.Sort {
		panic(fmt.Sprintf("smt: eq sort mismatch %v vs %v (%s / %s)", a.Sort, b.Sort, a, b))
	}
	if a.IsConst() && b.IsConst() {
		return c.BoolC(a.Op == b.Op && a.Val == b.Val)
	}
	if a.Sort.IsBool() {
		if a.IsTrue() {
			return b
		}
		if b.IsTrue() {
			return a
		}
		if a.IsFalse() {
			return c.Not(b)
		}
		if b.IsFalse() {
			return c.Not(a)
		}
	}
	// distinct literal symbols (declared via Lit) are never equal
	if a.Op == "lit" && b.Op == "lit" {
		return c.ff
	}
	// push equality with a constant / literal into ite when it folds
	if (b.IsConst() || b.Op == "lit") && a.Op == "ite" {
		x, y := a.Args[1], a.Args[2]
		if x.IsConst() || y.IsConst() || x.Op == "lit" || y.Op == "lit" || x.Op == "ite" || y.Op == "ite" {
			return c.Ite(a.Args[0], c.Eq(x, b), c.Eq(y, b))
		}
	}
	if (a.IsConst() || a.Op == "lit") && b.Op == "ite" {
		return c.Eq(b, a)
	}
	if a.ID > b.ID {
		a, b = b, a
	}
	return c.mk(&Term{Op: "=", Args: []*Term{a, b}, Sort: Bool})
}

func (c *Ctx) Neq(a, b *Term) *Term { return c.Not(c.Eq(a, b)) }

// Lit returns a literal symbol of an uninterpreted sort; distinct literal
// names denote distinct values (asserted at emission).
func (c *Ctx) Lit(name string, s Sort) *Term {
	return c.mk(&Term{Op: "lit", Name: name, Sort: s})
}

// ---- Int arithmetic (only what is needed) ----

func (c *Ctx) IntAdd(a, b *Term) *Term {
	if a.Op == "int" && b.Op == "int" {
		return c.IntC(int64(a.Val) + int64(b.Val))
	}
	return c.mk(&Term{Op: "+", Args: []*Term{a, b}, Sort: Int})
}
func (c *Ctx) IntLe(a, b *Term) *Term {
	if a.Op == "int" && b.Op == "int" {
		return c.BoolC(int64(a.Val) <= int64(b.Val))
	}
	return c.mk(&Term{Op: "<=", Args: []*Term{a, b}, Sort: Bool})
}
func (c *Ctx) IntLt(a, b *Term) *Term {
	if a.Op == "int" && b.Op == "int" {
		return c.BoolC(int64(a.Val) < int64(b.Val))
	}
	return c.mk(&Term{Op: "<", Args: []*Term{a, b}, Sort: Bool})
}

// ---- bit-vectors ----

func (c *Ctx) bin(op string, a, b *Term) *Term {
	if a.Sort != b.Sort {
		panic(fmt.Sprintf("smt: %s sort mismatch %v vs %v (%s / %s)", op, a.Sort, b.Sort, a, b))
	}
	return c.mk(&Term{Op: op, Args: []*Term{a, b}, Sort: a.Sort})
}

func (c *Ctx) BVAdd(a, b *Term) *Term {
	w := a.Sort.W
	if a.Op == "bv" && b.Op == "bv" {
		return c.BVC(a.Val+b.Val, w)
	}
	if a.Op == "bv" && a.Val == 0 {
		return b
	}
	if b.Op == "bv" && b.Val == 0 {
		return a
	}
	// (x + k1) + k2
	if b.Op == "bv" && a.Op == "bvadd" && a.Args[1].Op == "bv" {
		return c.BVAdd(a.Args[0], c.BVC(a.Args[1].Val+b.Val, w))
	}
	if a.Op == "bv" {
		a, b = b, a
	}
	return c.bin("bvadd", a, b)
}

func (c *Ctx) BVSub(a, b *Term) *Term {
	w := a.Sort.W
	if a.Op == "bv" && b.Op == "bv" {
		return c.BVC(a.Val-b.Val, w)
	}
	if b.Op == "bv" {
		return c.BVAdd(a, c.BVC(-b.Val, w))
	}
	if a == b {
		return c.BVC(0, w)
	}
	// (x + k) - x = k
	if a.Op == "bvadd" && a.Args[0] == b {
		return a.Args[1]
	}
	return c.bin("bvsub", a, b)
}

func (c *Ctx) BVMul(a, b *Term) *Term {
	w := a.Sort.W
	if a.Op == "bv" && b.Op == "bv" {
		return c.BVC(a.Val*b.Val, w)
	}
	if a.Op == "bv" {
		a, b = b, a
	}
	if b.Op == "bv" && b.Val == 1 {
		return a
	}
	if b.Op == "bv" && b.Val == 0 {
		return b
	}
	return c.bin("bvmul", a, b)
}

func (c *Ctx) BVNeg(a *Term) *Term {
	if a.Op == "bv" {
		return c.BVC(-a.Val, a.Sort.W)
	}
	return c.mk(&Term{Op: "bvneg", Args: []*Term{a}, Sort: a.Sort})
}

func (c *Ctx) BVNot(a *Term) *Term {
	if a.Op == "bv" {
		return c.BVC(^a.Val, a.Sort.W)
	}
	return c.mk(&Term{Op: "bvnot", Args: []*Term{a}, Sort: a.Sort})
}

func (c *Ctx) BVAnd(a, b *Term) *Term {
	w := a.Sort.W
	if a.Op == "bv" && b.Op == "bv" {
		return c.BVC(a.Val&b.Val, w)
	}
	if a.Op == "bv" {
		a, b = b, a
	}
	if b.Op == "bv" && b.Val == 0 {
		return b
	}
	if b.Op == "bv" && b.Val == mask(w) {
		return a
	}
	if a == b {
		return a
	}
	return c.bin("bvand", a, b)
}

func (c *Ctx) BVOr(a, b *Term) *Term {
	w := a.Sort.W
	if a.Op == "bv" && b.Op == "bv" {
		return c.BVC(a.Val|b.Val, w)
	}
	if a.Op == "bv" {
		a, b = b, a
	}
	if b.Op == "bv" && b.Val == 0 {
		return a
	}
	if a == b {
		return a
	}
	return c.bin("bvor", a, b)
}

func (c *Ctx) BVXor(a, b *Term) *Term {
	w := a.Sort.W
	if a.Op == "bv" && b.Op == "bv" {
		return c.BVC(a.Val^b.Val, w)
	}
	if b.Op == "bv" && b.Val == 0 {
		return a
	}
	if a.Op == "bv" && a.Val == 0 {
		return b
	}
	return c.bin("bvxor", a, b)
}

func (c *Ctx) BVShl(a, b *Term) *Term {
	w := a.Sort.W
	if a.Op == "bv" && b.Op == "bv" {
		if b.Val >= uint64(w) {
			return c.BVC(0, w)
		}
		return c.BVC(a.Val<<b.Val, w)
	}
	if b.Op == "bv" && b.Val == 0 {
		return a
	}
	return c.bin("bvshl", a, b)
}

func (c *Ctx) BVLshr(a, b *Term) *Term {
	w := a.Sort.W
	if a.Op == "bv" && b.Op == "bv" {
		if b.Val >= uint64(w) {
			return c.BVC(0, w)
		}
		return c.BVC(a.Val>>b.Val, w)
	}
	if b.Op == "bv" && b.Val == 0 {
		return a
	}
	return c.bin("bvlshr", a, b)
}

func (c *Ctx) BVAshr(a, b *Term) *Term {
	w := a.Sort.W
	if a.Op == "bv" && b.Op == "bv" {
		sh := b.Val
		if sh >= uint64(w) {
			sh = uint64(w - 1)
		}
		return c.BVC(uint64(a.SVal()>>sh), w)
	}
	if b.Op == "bv" && b.Val == 0 {
		return a
	}
	return c.bin("bvashr", a, b)
}

func (c *Ctx) BVUDiv(a, b *Term) *Term {
	if a.Op == "bv" && b.Op == "bv" && b.Val != 0 {
		return c.BVC(a.Val/b.Val, a.Sort.W)
	}
	return c.bin("bvudiv", a, b)
}
func (c *Ctx) BVURem(a, b *Term) *Term {
	if a.Op == "bv" && b.Op == "bv" && b.Val != 0 {
		return c.BVC(a.Val%b.Val, a.Sort.W)
	}
	return c.bin("bvurem", a, b)
}
func (c *Ctx) BVSDiv(a, b *Term) *Term {
	if a.Op == "bv" && b.Op == "bv" && b.Val != 0 && !(a.SVal() == -1<<63 && b.SVal() == -1) {
		return c.BVC(uint64(a.SVal()/b.SVal()), a.Sort.W)
	}
	return c.bin("bvsdiv", a, b)
}
func (c *Ctx) BVSRem(a, b *Term) *Term {
	if a.Op == "bv" && b.Op == "bv" && b.Val != 0 && !(a.SVal() == -1<<63 && b.SVal() == -1) {
		return c.BVC(uint64(a.SVal()%b.SVal()), a.Sort.W)
	}
	return c.bin("bvsrem", a, b)
}

func (c *Ctx) cmp(op string, a, b *Term) *Term {
	if a.Sort != b.Sort {
		panic(fmt.Sprintf("smt: %s sort mismatch %v vs %v (%s / %s)", op, a.Sort, b.Sort, a, b))
	}
	if a.Op == "bv" && b.Op == "bv" {
		switch op {
		case "bvult":
			return c.BoolC(a.Val < b.Val)
		case "bvule":
			return c.BoolC(a.Val <= b.Val)
		case "bvslt":
			return c.BoolC(a.SVal() < b.SVal())
		case "bvsle":
			return c.BoolC(a.SVal() <= b.SVal())
		}
	}
	if a == b {
		return c.BoolC(op == "bvule" || op == "bvsle")
	}
	if op == "bvule" && a.Op == "bv" && a.Val == 0 {
		return c.tt
	}
	if op == "bvult" && b.Op == "bv" && b.Val == 0 {
		return c.ff
	}
	// zero-extended value compared to a constant beyond its range
	if a.Op == "zext" && b.Op == "bv" {
		iw := a.Args[0].Sort.W
		if iw < 63 {
			lim := uint64(1) << uint(iw)
			switch op {
			case "bvult", "bvslt":
				if (op == "bvult" || b.SVal() >= 0) && b.Val >= lim {
					return c.tt
				}
			case "bvule", "bvsle":
				if (op == "bvule" || b.SVal() >= 0) && b.Val >= lim-1 {
					return c.tt
				}
			}
		}
	}
	if b.Op == "zext" && a.Op == "bv" && (op == "bvsle" || op == "bvule") && a.SVal() <= 0 && b.Args[0].Sort.W < 64 {
		if op == "bvule" && a.Val == 0 || op == "bvsle" {
			return c.tt
		}
	}
	return c.mk(&Term{Op: op, Args: []*Term{a, b}, Sort: Bool})
}

func (c *Ctx) BVUlt(a, b *Term) *Term { return c.cmp("bvult", a, b) }
func (c *Ctx) BVUle(a, b *Term) *Term { return c.cmp("bvule", a, b) }
func (c *Ctx) BVSlt(a, b *Term) *Term { return c.cmp("bvslt", a, b) }
func (c *Ctx) BVSle(a, b *Term) *Term { return c.cmp("bvsle", a, b) }

// Extract bits hi..lo.
func (c *Ctx) Extract(hi, lo int, a *Term) *Term {
	w := hi - lo + 1
	if lo == 0 && w == a.Sort.W {
		return a
	}
	if a.Op == "bv" {
		return c.BVC(a.Val>>uint(lo), w)
	}
	if (a.Op == "zext" || a.Op == "sext") && hi < a.Args[0].Sort.W {
		return c.Extract(hi, lo, a.Args[0])
	}
	if a.Op == "zext" && lo >= a.Args[0].Sort.W {
		return c.BVC(0, w)
	}
	if a.Op == "concat" {
		lw := a.Args[1].Sort.W
		if hi < lw {
			return c.Extract(hi, lo, a.Args[1])
		}
		if lo >= lw {
			return c.Extract(hi-lw, lo-lw, a.Args[0])
		}
	}
	if a.Op == "ite" && (a.Args[1].IsConst() || a.Args[2].IsConst()) {
		return c.Ite(a.Args[0], c.Extract(hi, lo, a.Args[1]), c.Extract(hi, lo, a.Args[2]))
	}
	return c.mk(&Term{Op: "extract", Args: []*Term{a}, Sort: BV(w), P1: hi, P2: lo})
}

func (c *Ctx) ZExt(a *Term, to int) *Term {
	if to == a.Sort.W {
		return a
	}
	if to < a.Sort.W {
		return c.Extract(to-1, 0, a)
	}
	if a.Op == "bv" {
		return c.BVC(a.Val, to)
	}
	if a.Op == "zext" {
		return c.ZExt(a.Args[0], to)
	}
	if a.Op == "ite" && (a.Args[1].IsConst() || a.Args[2].IsConst()) {
		return c.Ite(a.Args[0], c.ZExt(a.Args[1], to), c.ZExt(a.Args[2], to))
	}
	return c.mk(&Term{Op: "zext", Args: []*Term{a}, Sort: BV(to), P1: to - a.Sort.W})
}

func (c *Ctx) SExt(a *Term, to int) *Term {
	if to == a.Sort.W {
		return a
	}
	if to < a.Sort.W {
		return c.Extract(to-1, 0, a)
	}
	if a.Op == "bv" {
		return c.BVC(uint64(a.SVal()), to)
	}
	if a.Op == "zext" {
		return c.ZExt(a.Args[0], to)
	}
	return c.mk(&Term{Op: "sext", Args: []*Term{a}, Sort: BV(to), P1: to - a.Sort.W})
}

// Concat hi:lo.
func (c *Ctx) Concat(hi, lo *Term) *Term {
	w := hi.Sort.W + lo.Sort.W
	if hi.Op == "bv" && lo.Op == "bv" && w <= 64 {
		return c.BVC(hi.Val<<uint(lo.Sort.W)|lo.Val, w)
	}
	if hi.Op == "bv" && hi.Val == 0 {
		return c.ZExt(lo, w)
	}
	// concat(extract(h2,l2,x), extract(l2-1,l1,x)) = extract(h2,l1,x)
	if hi.Op == "extract" && lo.Op == "extract" && hi.Args[0] == lo.Args[0] && hi.P2 == lo.P1+1 {
		return c.Extract(hi.P1, lo.P2, hi.Args[0])
	}
	return c.mk(&Term{Op: "concat", Args: []*Term{hi, lo}, Sort: BV(w)})
}

// ---- quantifiers ----

func (c *Ctx) Forall(vars []*Term, body *Term) *Term {
	if body.IsConst() || len(vars) == 0 {
		return body
	}
	return c.mk(&Term{Op: "forall", Vars: vars, Args: []*Term{body}, Sort: Bool})
}
func (c *Ctx) Exists(vars []*Term, body *Term) *Term {
	if body.IsConst() || len(vars) == 0 {
		return body
	}
	return c.mk(&Term{Op: "exists", Vars: vars, Args: []*Term{body}, Sort: Bool})
}

// HasQuant reports whether t contains a quantifier.
func HasQuant(t *Term) bool {
	seen := map[int]bool{}
	var rec func(t *Term) bool
	rec = func(t *Term) bool {
		if seen[t.ID] {
			return false
		}
		seen[t.ID] = true
		if t.Op == "forall" || t.Op == "exists" {
			return true
		}
		for _, a := range t.Args {
			if rec(a) {
				return true
			}
		}
		return false
	}
	return rec(t)
}

// Subst replaces terms according to m (keys are usually bound variables).
// hasBVar: t contains a bound variable (memoised per term: terms are immutable).
func (c *Ctx) hasBVar(t *Term) bool {
	if t.Op == "bvar" {
		return true
	}
	if len(t.Args) == 0 {
		return false
	}
	if r, ok := c.bvarMemo[t.ID]; ok {
		return r
	}
	r := false
	for _, a := range t.Args {
		if c.hasBVar(a) {
			r = true
			break
		}
	}
	if c.bvarMemo == nil {
		c.bvarMemo = map[int]bool{}
	}
	c.bvarMemo[t.ID] = r
	return r
}

func (c *Ctx) Subst(t *Term, m map[*Term]*Term) *Term {
	memo := map[int]*Term{}
	// substitution of bound variables only (the common case) never changes a
	// subterm without bound variables
	onlyBV := true
	for k := range m {
		if k.Op != "bvar" {
			onlyBV = false
		}
	}
	// the same instance is asked for again by every obligation of a function
	var ckey string
	if onlyBV && len(m) <= 4 {
		ids := make([][2]int, 0, len(m))
		for k, v := range m {
			ids = append(ids, [2]int{k.ID, v.ID})
		}
		sort.Slice(ids, func(i, j int) bool { return ids[i][0] < ids[j][0] })
		b := strconv.AppendInt(nil, int64(t.ID), 10)
		for _, p := range ids {
			b = append(b, '|')
			b = strconv.AppendInt(b, int64(p[0]), 10)
			b = append(b, '>')
			b = strconv.AppendInt(b, int64(p[1]), 10)
		}
		ckey = string(b)
		if r, ok := c.substMemo[ckey]; ok {
			return r
		}
	}
	var rec func(t *Term) *Term
	rec = func(t *Term) *Term {
		if r, ok := m[t]; ok {
			return r
		}
		if len(t.Args) == 0 {
			return t
		}
		if onlyBV && !c.hasBVar(t) {
			return t
		}
		if r, ok := memo[t.ID]; ok {
			return r
		}
		args := make([]*Term, len(t.Args))
		changed := false
		for i, a := range t.Args {
			args[i] = rec(a)
			if args[i] != a {
				changed = true
			}
		}
		r := t
		if changed {
			r = c.Rebuild(t, args)
		}
		memo[t.ID] = r
		return r
	}
	res := rec(t)
	if ckey != "" {
		if c.substMemo == nil {
			c.substMemo = map[string]*Term{}
		}
		c.substMemo[ckey] = res
	}
	return res
}

// Rebuild re-applies t's operator to new arguments (with simplification).
func (c *Ctx) Rebuild(t *Term, a []*Term) *Term {
	switch t.Op {
	case "not":
		return c.Not(a[0])
	case "and":
		return c.And(a...)
	case "or":
		return c.Or(a...)
	case "ite":
		return c.Ite(a[0], a[1], a[2])
	case "=":
		return c.Eq(a[0], a[1])
	case "+":
		return c.IntAdd(a[0], a[1])
	case "<=":
		return c.IntLe(a[0], a[1])
	case "<":
		return c.IntLt(a[0], a[1])
	case "bvadd":
		return c.BVAdd(a[0], a[1])
	case "bvsub":
		return c.BVSub(a[0], a[1])
	case "bvmul":
		return c.BVMul(a[0], a[1])
	case "bvneg":
		return c.BVNeg(a[0])
	case "bvnot":
		return c.BVNot(a[0])
	case "bvand":
		return c.BVAnd(a[0], a[1])
	case "bvor":
		return c.BVOr(a[0], a[1])
	case "bvxor":
		return c.BVXor(a[0], a[1])
	case "bvshl":
		return c.BVShl(a[0], a[1])
	case "bvlshr":
		return c.BVLshr(a[0], a[1])
	case "bvashr":
		return c.BVAshr(a[0], a[1])
	case "bvudiv":
		return c.BVUDiv(a[0], a[1])
	case "bvurem":
		return c.BVURem(a[0], a[1])
	case "bvsdiv":
		return c.BVSDiv(a[0], a[1])
	case "bvsrem":
		return c.BVSRem(a[0], a[1])
	case "bvult", "bvule", "bvslt", "bvsle":
		return c.cmp(t.Op, a[0], a[1])
	case "extract":
		return c.Extract(t.P1, t.P2, a[0])
	case "zext":
		return c.ZExt(a[0], t.Sort.W)
	case "sext":
		return c.SExt(a[0], t.Sort.W)
	case "concat":
		return c.Concat(a[0], a[1])
	case "app":
		return c.App(t.Name, t.Sort, a...)
	case "forall":
		return c.Forall(t.Vars, a[0])
	case "exists":
		return c.Exists(t.Vars, a[0])
	}
	panic("smt: rebuild of " + t.Op)
}

// ---- printing ----

func (t *Term) String() string {
	var sb strings.Builder
	printTree(&sb, t, nil, 0)
	return sb.String()
}

// SMT renders t as an SMT-LIB term with shared subterms bound by `let`
// (linear in the size of the DAG; String prints a tree).
func (t *Term) SMT() string {
	var sb strings.Builder
	printLets(&sb, t, nil, 0)
	return sb.String()
}

func head(t *Term) string {
	switch t.Op {
	case "extract":
		return fmt.Sprintf("(_ extract %d %d)", t.P1, t.P2)
	case "zext":
		return fmt.Sprintf("(_ zero_extend %d)", t.P1)
	case "sext":
		return fmt.Sprintf("(_ sign_extend %d)", t.P1)
	case "app":
		return quoteSym(t.Name)
	}
	return t.Op
}

func quoteSym(s string) string {
	for _, r := range s {
		if !(r >= 'a' && r <= 'z' || r >= 'A' && r <= 'Z' || r >= '0' && r <= '9' || r == '_' || r == '.' || r == '!' || r == '$' || r == '?') {
			return "|" + s + "|"
		}
	}
	return s
}

func leaf(t *Term) (string, bool) {
	switch t.Op {
	case "true", "false":
		return t.Op, true
	case "bv":
		w := t.Sort.W
		if w%4 == 0 {
			return fmt.Sprintf("#x%0*x", w/4, t.Val), true
		}
		return fmt.Sprintf("#b%0*b", w, t.Val), true
	case "int":
		v := int64(t.Val)
		if v < 0 {
			return fmt.Sprintf("(- %d)", -v), true
		}
		return fmt.Sprintf("%d", v), true
	case "sym", "bvar":
		return quoteSym(t.Name), true
	case "lit":
		return quoteSym("lit$" + t.Name), true
	}
	return "", false
}

type nameEnv struct {
	m      map[int]string
	parent *nameEnv
}

func (n *nameEnv) get(id int) (string, bool) {
	for e := n; e != nil; e = e.parent {
		if s, ok := e.m[id]; ok {
			return s, true
		}
	}
	return "", false
}

func printTree(sb *strings.Builder, t *Term, names *nameEnv, depth int) {
	if n, ok := names.get(t.ID); ok {
		sb.WriteString(n)
		return
	}
	if s, ok := leaf(t); ok {
		sb.WriteString(s)
		return
	}
	if depth > 200 {
		sb.WriteString("...")
		return
	}
	if t.Op == "forall" || t.Op == "exists" {
		sb.WriteString("(" + t.Op + " (")
		for _, v := range t.Vars {
			fmt.Fprintf(sb, "(%s %s)", quoteSym(v.Name), v.Sort)
		}
		sb.WriteString(") ")
		printLets(sb, t.Args[0], names, depth+1)
		sb.WriteString(")")
		return
	}
	sb.WriteString("(" + head(t))
	for _, a := range t.Args {
		sb.WriteByte(' ')
		printTree(sb, a, names, depth+1)
	}
	sb.WriteByte(')')
}

// printLets prints t binding its internally shared subterms with nested lets.
func printLets(sb *strings.Builder, t *Term, names *nameEnv, depth int) {
	refs := map[int]int{}
	var order []*Term
	var walk func(x *Term)
	walk = func(x *Term) {
		if _, ok := names.get(x.ID); ok {
			return
		}
		if _, ok := leaf(x); ok {
			return
		}
		refs[x.ID]++
		if refs[x.ID] > 1 {
			return
		}
		for _, a := range x.Args {
			walk(a)
		}
		order = append(order, x)
	}
	walk(t)
	local := &nameEnv{m: map[int]string{}, parent: names}
	n := 0
	closing := 0
	for _, x := range order {
		if refs[x.ID] < 2 || x == t {
			continue
		}
		n++
		nm := fmt.Sprintf("$l%d_%d", depth, n)
		sb.WriteString("(let ((" + nm + " ")
		printTree(sb, x, local, depth+1)
		sb.WriteString(")) ")
		local.m[x.ID] = nm
		closing++
	}
	printTree(sb, t, local, depth+1)
	for i := 0; i < closing; i++ {
		sb.WriteByte(')')
	}
}

// Script renders a complete SMT-LIB2 query checking satisfiability of the
// conjunction of asserts.  Shared quantifier-free subterms become define-funs.
type Script struct {
	Text  string
	Lits  []string
	Funcs int
}

// containsBound reports (memoised) whether a term mentions a bound variable.
func containsBound(t *Term, memo map[int]bool) bool {
	if v, ok := memo[t.ID]; ok {
		return v
	}
	r := t.Op == "bvar"
	if !r {
		for _, a := range t.Args {
			if containsBound(a, memo) {
				r = true
				break
			}
		}
	}
	memo[t.ID] = r
	return r
}

// BuildScript renders asserts; extra lines (e.g. get-value) are appended after check-sat.
func (c *Ctx) BuildScript(asserts []*Term, logic string, produceModels bool, tail string) string {
	var sb strings.Builder
	if produceModels {
		sb.WriteString("(set-option :produce-models true)\n")
	}
	if logic != "" {
		fmt.Fprintf(&sb, "(set-logic %s)\n", logic)
	}
	// collect reachable terms, function symbols, sorts, literals
	seen := map[int]bool{}
	refs := map[int]int{}
	var order []*Term
	usedF := map[string]bool{}
	usedS := map[string]bool{}
	lits := map[string][]string{}
	var walk func(t *Term)
	walk = func(t *Term) {
		refs[t.ID]++
		if seen[t.ID] {
			return
		}
		seen[t.ID] = true
		if t.Sort.IsUninterp() {
			usedS[t.Sort.Name] = true
		}
		for _, v := range t.Vars {
			if v.Sort.IsUninterp() {
				usedS[v.Sort.Name] = true
			}
		}
		switch t.Op {
		case "sym", "app":
			usedF[t.Name] = true
		case "lit":
			lits[t.Sort.Name] = append(lits[t.Sort.Name], t.Name)
		}
		for _, a := range t.Args {
			walk(a)
		}
		order = append(order, t)
	}
	for _, a := range asserts {
		walk(a)
	}
	for f := range usedF {
		sig := c.Funcs[f]
		for _, s := range sig.Args {
			if s.IsUninterp() {
				usedS[s.Name] = true
			}
		}
		if sig.Ret.IsUninterp() {
			usedS[sig.Ret.Name] = true
		}
	}
	var sorts []string
	for s := range usedS {
		sorts = append(sorts, s)
	}
	sort.Strings(sorts)
	for _, s := range sorts {
		fmt.Fprintf(&sb, "(declare-sort %s 0)\n", s)
	}
	var fs []string
	for f := range usedF {
		fs = append(fs, f)
	}
	sort.Strings(fs)
	for _, f := range fs {
		sig := c.Funcs[f]
		var as []string
		for _, s := range sig.Args {
			as = append(as, s.String())
		}
		fmt.Fprintf(&sb, "(declare-fun %s (%s) %s)\n", quoteSym(f), strings.Join(as, " "), sig.Ret)
	}
	var lsorts []string
	for s := range lits {
		lsorts = append(lsorts, s)
	}
	sort.Strings(lsorts)
	for _, s := range lsorts {
		ls := lits[s]
		sort.Strings(ls)
		var names []string
		for _, l := range ls {
			n := quoteSym("lit$" + l)
			names = append(names, n)
			fmt.Fprintf(&sb, "(declare-fun %s () %s)\n", n, s)
		}
		if len(names) > 1 {
			fmt.Fprintf(&sb, "(assert (distinct %s))\n", strings.Join(names, " "))
		}
	}
	// shared, closed, non-leaf terms become definitions
	bmemo := map[int]bool{}
	names := &nameEnv{m: map[int]string{}}
	n := 0
	for _, t := range order {
		if _, ok := leaf(t); ok {
			continue
		}
		if refs[t.ID] < 2 || containsBound(t, bmemo) {
			continue
		}
		var b strings.Builder
		printTree(&b, t, names, 0)
		n++
		name := fmt.Sprintf("$t%d", n)
		fmt.Fprintf(&sb, "(define-fun %s () %s %s)\n", name, t.Sort, b.String())
		names.m[t.ID] = name
	}
	for _, a := range asserts {
		var b strings.Builder
		printTree(&b, a, names, 0)
		fmt.Fprintf(&sb, "(assert %s)\n", b.String())
	}
	sb.WriteString("(check-sat)\n")
	sb.WriteString(tail)
	return sb.String()
}

// Size returns the number of distinct nodes reachable from ts.
func Size(ts ...*Term) int {
	seen := map[int]bool{}
	var walk func(t *Term)
	walk = func(t *Term) {
		if seen[t.ID] {
			return
		}
		seen[t.ID] = true
		for _, a := range t.Args {
			walk(a)
		}
	}
	for _, t := range ts {
		walk(t)
	}
	return len(seen)
}

// Render prints a term using the same syntax as scripts (for get-value).
func Render(t *Term) string { return t.String() }

var _ = bits.Len64

// Mentions reports whether sub occurs in t.
func Mentions(t, sub *Term) bool {
	seen := map[int]bool{}
	var rec func(x *Term) bool
	rec = func(x *Term) bool {
		if x == sub {
			return true
		}
		if seen[x.ID] {
			return false
		}
		seen[x.ID] = true
		for _, a := range x.Args {
			if rec(a) {
				return true
			}
		}
		return false
	}
	return rec(t)
}


// FreeBVars returns the bound variables that occur free in the given terms.
func FreeBVars(ts ...*Term) []*Term {
	var vars []*Term
	have := map[int]bool{}
	var walk func(x *Term, bound map[int]bool, seen map[int]bool)
	walk = func(x *Term, bound map[int]bool, seen map[int]bool) {
		if seen[x.ID] {
			return
		}
		seen[x.ID] = true
		if x.Op == "bvar" {
			if !bound[x.ID] && !have[x.ID] {
				have[x.ID] = true
				vars = append(vars, x)
			}
			return
		}
		if x.Op == "forall" || x.Op == "exists" {
			nb := map[int]bool{}
			for k := range bound {
				nb[k] = true
			}
			for _, v := range x.Vars {
				nb[v.ID] = true
			}
			// a different binding context: do not share the seen set
			for _, a := range x.Args {
				walk(a, nb, map[int]bool{})
			}
			return
		}
		for _, a := range x.Args {
			walk(a, bound, seen)
		}
	}
	for _, t := range ts {
		walk(t, map[int]bool{}, map[int]bool{})
	}
	return vars
}

// FreshOver returns a fresh symbol that is a function of the bound variables
// occurring free in deps (and of FreshParams): a name introduced for a term
// that depends on quantified variables must depend on them too.
func (c *Ctx) FreshOver(prefix string, s Sort, deps ...*Term) *Term {
	vars := FreeBVars(deps...)
	if len(vars) == 0 {
		return c.Fresh(prefix, s)
	}
	n := c.FreshName(prefix)
	args := append(append([]*Term{}, c.FreshParams...), vars...)
	return c.App(n, s, args...)
}

// MentionsFunc reports whether an application of the named function occurs in t.
func MentionsFunc(t *Term, name string) bool {
	seen := map[int]bool{}
	var rec func(x *Term) bool
	rec = func(x *Term) bool {
		if seen[x.ID] {
			return false
		}
		seen[x.ID] = true
		if (x.Op == "app" || x.Op == "sym") && x.Name == name {
			return true
		}
		for _, a := range x.Args {
			if rec(a) {
				return true
			}
		}
		return false
	}
	return rec(t)
}
