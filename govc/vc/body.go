package vc

import (
	"strings"
	"go/types"
	"os"
	"fmt"
	"go/token"
	"sort"

	"govc/smt"

	"golang.org/x/tools/go/ssa"
)

// loopInfo is a natural loop of the CFG.
type loopInfo struct {
	header  *ssa.BasicBlock
	blocks  map[*ssa.BasicBlock]bool
	ordinal int
	parent  *loopInfo
	spec    *LoopSpec
	order   []*ssa.BasicBlock // blocks in RPO
	freshPhis map[*ssa.Phi]bool
	rangeLoop bool // header phi is the previous index, the body works on phi+1
	ghostWritten map[string]bool // ghost variables whose value differs at a back edge (from the dry runs)
}

type edgeState struct {
	from *ssa.BasicBlock
	st   *State
}

type retInfo struct {
	st   *State
	vals []Value
	pos  token.Pos
}

// bodyRun is one symbolic execution of a function body.
type bodyRun struct {
	e        *Exec
	fn       *ssa.Function
	spec     *FuncSpec
	loops    map[*ssa.BasicBlock]*loopInfo // by header
	rpo      []*ssa.BasicBlock
	rpoIdx   map[*ssa.BasicBlock]int
	pending  map[*ssa.BasicBlock][]edgeState
	prepared map[*ssa.BasicBlock]*State
	rets     []retInfo
	back     map[*loopInfo][]edgeState
	top      bool
}

func computeRPO(fn *ssa.Function) []*ssa.BasicBlock {
	seen := map[*ssa.BasicBlock]bool{}
	var post []*ssa.BasicBlock
	var dfs func(b *ssa.BasicBlock)
	dfs = func(b *ssa.BasicBlock) {
		seen[b] = true
		// visit successors in reverse so that RPO follows source order
		for i := len(b.Succs) - 1; i >= 0; i-- {
			if !seen[b.Succs[i]] {
				dfs(b.Succs[i])
			}
		}
		post = append(post, b)
	}
	dfs(fn.Blocks[0])
	for i, j := 0, len(post)-1; i < j; i, j = i+1, j-1 {
		post[i], post[j] = post[j], post[i]
	}
	return post
}

func findLoops(fn *ssa.Function, rpo []*ssa.BasicBlock) map[*ssa.BasicBlock]*loopInfo {
	loops := map[*ssa.BasicBlock]*loopInfo{}
	for _, b := range rpo {
		for _, s := range b.Succs {
			if s.Dominates(b) {
				li := loops[s]
				if li == nil {
					li = &loopInfo{header: s, blocks: map[*ssa.BasicBlock]bool{s: true}}
					loops[s] = li
				}
				// natural loop of back edge b -> s
				var stack []*ssa.BasicBlock
				if !li.blocks[b] {
					li.blocks[b] = true
					stack = append(stack, b)
				}
				for len(stack) > 0 {
					x := stack[len(stack)-1]
					stack = stack[:len(stack)-1]
					for _, p := range x.Preds {
						if !li.blocks[p] {
							li.blocks[p] = true
							stack = append(stack, p)
						}
					}
				}
			}
		}
	}
	var hs []*ssa.BasicBlock
	for h := range loops {
		hs = append(hs, h)
	}
	sort.Slice(hs, func(i, j int) bool { return hs[i].Index < hs[j].Index })
	for i, h := range hs {
		loops[h].ordinal = i
	}
	// nesting: parent = smallest enclosing loop
	for _, h := range hs {
		li := loops[h]
		for _, h2 := range hs {
			l2 := loops[h2]
			if l2 != li && l2.blocks[h] && (li.parent == nil || len(l2.blocks) < len(li.parent.blocks)) {
				li.parent = l2
			}
		}
		for _, b := range rpo {
			if li.blocks[b] {
				li.order = append(li.order, b)
			}
		}
	}
	return loops
}

// runBody symbolically executes fn from st0 (params already bound) and
// returns the states at each return.
func (e *Exec) runBody(fn *ssa.Function, spec *FuncSpec, st0 *State, top bool) []retInfo {
	if len(fn.Blocks) == 0 {
		e.refuse("function %s has no body", fn)
	}
	b := &bodyRun{e: e, fn: fn, spec: spec, top: top}
	b.rpo = computeRPO(fn)
	b.rpoIdx = map[*ssa.BasicBlock]int{}
	for i, x := range b.rpo {
		b.rpoIdx[x] = i
	}
	b.loops = findLoops(fn, b.rpo)
	for _, li := range b.loops {
		if spec != nil {
			li.spec = spec.Loops[li.ordinal]
		}
	}
	b.pending = map[*ssa.BasicBlock][]edgeState{}
	b.prepared = map[*ssa.BasicBlock]*State{}
	b.back = map[*loopInfo][]edgeState{}
	b.prepared[fn.Blocks[0]] = st0
	e.frames = append(e.frames, &frame{fn: fn})
	defer func() { e.frames = e.frames[:len(e.frames)-1] }()
	b.runRegion(b.rpo, nil)
	return b.rets
}

func (b *bodyRun) runRegion(blocks []*ssa.BasicBlock, cur *loopInfo) {
	done := map[*ssa.BasicBlock]bool{}
	for _, blk := range blocks {
		if done[blk] {
			continue
		}
		if li, ok := b.loops[blk]; ok && li != cur {
			b.runLoop(li)
			for x := range li.blocks {
				done[x] = true
			}
			continue
		}
		var st *State
		if p, ok := b.prepared[blk]; ok {
			st = p
			delete(b.prepared, blk)
		} else {
			in := b.pending[blk]
			delete(b.pending, blk)
			if len(in) == 0 {
				continue
			}
			st = b.mergeStates(blk, in)
		}
		b.execBlock(blk, st, cur)
	}
}

// innermost loop containing blk that is `cur` or an ancestor of it
func (b *bodyRun) edge(from, to *ssa.BasicBlock, st *State, cur *loopInfo) {
	if st.guard.IsFalse() {
		return
	}
	// back edge to the header of the current loop (or an enclosing one)
	for l := cur; l != nil; l = l.parent {
		if to == l.header && l.blocks[from] {
			b.back[l] = append(b.back[l], edgeState{from, st})
			return
		}
	}
	b.pending[to] = append(b.pending[to], edgeState{from, st})
}

func (b *bodyRun) execBlock(blk *ssa.BasicBlock, st *State, cur *loopInfo) {
	e := b.e
	c := e.C
	for _, ins := range blk.Instrs {
		switch x := ins.(type) {
		case *ssa.Phi:
			continue // handled in mergeStates
		case *ssa.If:
			cond := e.nameQuant(st, e.scalar(st, x.Cond))
			tS := st.clone()
			tS.guard = c.And(st.guard, cond)
			fS := st
			fS.guard = c.And(st.guard, c.Not(cond))
			b.edge(blk, blk.Succs[0], tS, cur)
			b.edge(blk, blk.Succs[1], fS, cur)
			return
		case *ssa.Jump:
			b.edge(blk, blk.Succs[0], st, cur)
			return
		case *ssa.Return:
			var vals []Value
			for _, r := range x.Results {
				vals = append(vals, e.eval(st, r))
			}
			b.rets = append(b.rets, retInfo{st: st, vals: vals, pos: x.Pos()})
			return
		case *ssa.Panic:
			e.oblige(st, "panic", "explicit panic", c.False(), x.Pos())
			return
		default:
			e.step(st, ins)
			if st.guard.IsFalse() {
				return
			}
		}
	}
}

// mergeStates joins the incoming edge states of blk and evaluates its phis.
func (b *bodyRun) mergeStates(blk *ssa.BasicBlock, in []edgeState) *State {
	e := b.e
	c := e.C
	// phi values per edge
	used := map[int]bool{}
	predIdx := make([]int, len(in))
	for i, es := range in {
		predIdx[i] = -1
		for k, p := range blk.Preds {
			if p == es.from && !used[k] {
				// the same predecessor may contribute several states (unrolled loops)
				predIdx[i] = k
				break
			}
		}
		if predIdx[i] < 0 {
			e.refuse("edge from block %d is not a predecessor of block %d", es.from.Index, blk.Index)
		}
	}
	var phis []*ssa.Phi
	for _, ins := range blk.Instrs {
		if p, ok := ins.(*ssa.Phi); ok {
			phis = append(phis, p)
		} else {
			break
		}
	}
	if len(in) == 1 {
		st := in[0].st
		vals := make([]Value, len(phis))
		for j, p := range phis {
			vals[j] = e.eval(st, p.Edges[predIdx[0]])
		}
		for j, p := range phis {
			st.env[p] = vals[j]
		}
		return st
	}
	res := &State{}
	guards := make([]*smt.Term, len(in))
	for i, es := range in {
		guards[i] = es.st.guard
	}
	res.guard = factorOr(c, guards)
	res.facts = in[0].st.facts
	for _, es := range in[1:] {
		res.facts = joinFacts(res.facts, es.st.facts)
	}
	// env: keys present in all
	res.env = map[ssa.Value]Value{}
	for k, v0 := range in[0].st.env {
		val := v0
		ok := true
		for i := 1; i < len(in); i++ {
			vi, has := in[i].st.env[k]
			if !has {
				ok = false
				break
			}
			if !sameValue(vi, val) {
				val = nil
			}
		}
		if !ok {
			continue
		}
		if val == nil {
			val = in[len(in)-1].st.env[k]
			for i := len(in) - 2; i >= 0; i-- {
				val = e.merge(in[i].st.guard, in[i].st.env[k], val)
			}
		}
		res.env[k] = val
	}
	for _, p := range phis {
		var val Value
		for i := len(in) - 1; i >= 0; i-- {
			v := e.eval(in[i].st, p.Edges[predIdx[i]])
			if val == nil {
				val = v
			} else {
				val = e.merge(in[i].st.guard, v, val)
			}
		}
		res.env[p] = val
	}
	// memory
	res.mem = map[*Object]Value{}
	objs := map[*Object]bool{}
	for _, es := range in {
		for o := range es.st.mem {
			objs[o] = true
		}
	}
	for o := range objs {
		var val Value
		same := true
		first := e.contents(in[0].st, o)
		for i := 1; i < len(in); i++ {
			if e.contents(in[i].st, o) != first {
				same = false
				break
			}
		}
		if same {
			val = first
		} else {
			val = e.contents(in[len(in)-1].st, o)
			for i := len(in) - 2; i >= 0; i-- {
				val = e.merge(in[i].st.guard, e.contents(in[i].st, o), val)
			}
		}
		res.mem[o] = val
	}
	// ghost records: union (each record carries its own guard)
	seen := map[*CallRec]bool{}
	for _, es := range in {
		for _, r := range es.st.recs {
			if !seen[r] {
				seen[r] = true
				res.recs = append(res.recs, r)
			}
		}
	}
	// ghost variables
	for _, es := range in {
		if es.st.ghost != nil {
			res.ghost = map[string]Value{}
			break
		}
	}
	if res.ghost != nil {
		for k := range in[0].st.ghost {
			val := in[len(in)-1].st.ghost[k]
			for i := len(in) - 2; i >= 0; i-- {
				val = e.merge(in[i].st.guard, in[i].st.ghost[k], val)
			}
			res.ghost[k] = val
		}
	}
	return res
}

// factorOr builds OR(guards) factoring out common conjuncts.
func factorOr(c *smt.Ctx, gs []*smt.Term) *smt.Term {
	conj := func(t *smt.Term) []*smt.Term {
		if t.Op == "and" {
			return t.Args
		}
		return []*smt.Term{t}
	}
	common := map[int]*smt.Term{}
	for _, x := range conj(gs[0]) {
		common[x.ID] = x
	}
	for _, g := range gs[1:] {
		have := map[int]bool{}
		for _, x := range conj(g) {
			have[x.ID] = true
		}
		for id := range common {
			if !have[id] {
				delete(common, id)
			}
		}
	}
	var rests []*smt.Term
	for _, g := range gs {
		var rest []*smt.Term
		for _, x := range conj(g) {
			if _, ok := common[x.ID]; !ok {
				rest = append(rest, x)
			}
		}
		rests = append(rests, c.And(rest...))
	}
	var cs []*smt.Term
	for _, x := range conj(gs[0]) {
		if _, ok := common[x.ID]; ok {
			cs = append(cs, x)
		}
	}
	cs = append(cs, c.Or(rests...))
	return c.And(cs...)
}

// ---- loops ----

func (b *bodyRun) runLoop(li *loopInfo) {
	e := b.e
	c := e.C
	h := li.header
	entry := b.pending[h]
	delete(b.pending, h)
	if len(entry) == 0 {
		return
	}
	label := fmt.Sprintf("loop%d", li.ordinal)
	if e.dry == 0 {
		e.LoopsTotal++
	}
	if li.spec != nil && li.spec.Unroll > 0 {
		if e.dry == 0 {
			e.LoopsTerminating++ // bounded by the unwinding obligation
		}
		in := entry
		for t := 0; t <= li.spec.Unroll; t++ {
			if len(in) == 0 {
				return
			}
			b.pending[h] = in
			b.back[li] = nil
			b.runRegion(li.order, li)
			in = b.back[li]
		}
		for _, es := range in {
			e.oblige(es.st, "unwind", label, c.False(), h.Instrs[0].Pos())
		}
		return
	}
	// loops without annotations are cut with the auto-derived invariants only
	stIn := b.mergeStates(h, entry)
	var invs []Clause
	if li.spec != nil {
		invs = li.spec.Invariants
	}
	pos := token.NoPos
	for _, ins := range h.Instrs {
		if ins.Pos().IsValid() {
			pos = ins.Pos()
			break
		}
	}
	// phis of the header
	var phis []*ssa.Phi
	for _, ins := range h.Instrs {
		if p, ok := ins.(*ssa.Phi); ok {
			phis = append(phis, p)
		} else {
			break
		}
	}
	names := b.loopNames(li)
	type invItem struct {
		label string
		eval  func(st *State, phiVals map[*ssa.Phi]Value) *smt.Term
	}
	var items []invItem
	var termPhi *ssa.Phi   // counter compared with termBound in the loop test
	var termBound ssa.Value
	var ctrPhi *ssa.Phi
	var ctrInit *smt.Term
	var ctrSigned bool
	// auto-derived invariants: a counter that starts at a constant and is only
	// incremented by a positive constant stays >= its initial value (checked
	// like any other invariant, so overflow is not assumed away).
	for _, p := range phis {
		p := p
		w, signed, ok := intInfo(p.Type())
		if !ok {
			continue
		}
		init, isS := stIn.env[p].(Scalar)
		if !isS {
			continue
		}
		okStep := true
		for k, pred := range h.Preds {
			if !li.blocks[pred] {
				continue
			}
			bo, isB := p.Edges[k].(*ssa.BinOp)
			if !isB || bo.Op != token.ADD || bo.X != ssa.Value(p) {
				okStep = false
				break
			}
			kc, isC := bo.Y.(*ssa.Const)
			if !isC || kc.Value == nil || kc.Int64() <= 0 {
				okStep = false
				break
			}
		}
		if !okStep {
			continue
		}
		_ = w
		initT := init.T
		if len(phis) == 1 {
			step1 := true
			for k, pred := range h.Preds {
				if li.blocks[pred] && p.Edges[k].(*ssa.BinOp).Y.(*ssa.Const).Int64() != 1 {
					step1 = false
				}
			}
			if step1 {
				ctrPhi, ctrInit, ctrSigned = p, initT, signed
			}
		}
		name := p.Comment
		if name == "" {
			name = p.Name()
		}
		// upper bound from the loop test: either `phi < B` at the header with
		// step 1 (for-loops) or `phi+1 < B` where phi+1 is the back-edge value
		// (range loops); B must be defined outside the loop.
		if ifi, ok := h.Instrs[len(h.Instrs)-1].(*ssa.If); ok && signed {
			if cmp, ok := ifi.Cond.(*ssa.BinOp); ok && cmp.Op == token.LSS && li.blocks[h.Succs[0]] && !li.blocks[h.Succs[1]] {
				// the bound may also be recomputed in the loop header from values
				// defined outside (`i < len(x.f)`): pure address arithmetic, loads
				// and len/cap.  Whether memory it reads stays the same is not
				// assumed: the invariant is checked at every back edge like any other.
				var outside func(v ssa.Value) bool
				outside = func(v ssa.Value) bool {
					switch x := v.(type) {
					case *ssa.Const, *ssa.Parameter, *ssa.FreeVar, *ssa.Global:
						return true
					case *ssa.FieldAddr:
						return !li.blocks[x.Block()] || outside(x.X)
					case *ssa.Field:
						return !li.blocks[x.Block()] || outside(x.X)
					case *ssa.UnOp:
						return !li.blocks[x.Block()] || (x.Op == token.MUL && outside(x.X))
					case *ssa.Call:
						if !li.blocks[x.Block()] {
							return true
						}
						if bi, ok := x.Call.Value.(*ssa.Builtin); ok && (bi.Name() == "len" || bi.Name() == "cap") && len(x.Call.Args) == 1 {
							return outside(x.Call.Args[0])
						}
						return false
					case ssa.Instruction:
						return !li.blocks[x.Block()]
					}
					return false
				}
				var strict, okForm bool
				if cmp.X == ssa.Value(p) && outside(cmp.Y) {
					// for i := ...; i < B; i += 1
					okForm = true
					for k, pred := range h.Preds {
						if li.blocks[pred] {
							bo := p.Edges[k].(*ssa.BinOp)
							if bo.Y.(*ssa.Const).Int64() != 1 {
								okForm = false
							}
						}
					}
				} else if bo, isB := cmp.X.(*ssa.BinOp); isB && bo.Op == token.ADD && bo.X == ssa.Value(p) && outside(cmp.Y) {
					okForm, strict = true, true
					for k, pred := range h.Preds {
						if li.blocks[pred] && p.Edges[k] != ssa.Value(bo) {
							okForm = false
						}
					}
				}
				if okForm {
					li.rangeLoop = strict
					bound := cmp.Y
					termPhi, termBound = p, bound
					lbl := fmt.Sprintf("auto:%s<=bound", name)
					items = append(items, invItem{label: lbl, eval: func(st *State, phiVals map[*ssa.Phi]Value) *smt.Term {
						var v Value
						if phiVals != nil {
							v = phiVals[p]
						} else {
							v = st.env[p]
						}
						t := v.(Scalar).T
						bt := b.evalPure(st, bound).(Scalar).T
						if strict {
							return c.Or(c.BVSlt(t, bt), c.Eq(t, initT))
						}
						return c.Or(c.BVSle(t, bt), c.Eq(t, initT))
					}})
				}
			}
		}
		initLbl := "init"
		if initT.Op == "bv" {
			initLbl = fmt.Sprint(initT.SVal())
		}
		items = append(items, invItem{label: fmt.Sprintf("auto:%s>=%s", name, initLbl), eval: func(st *State, phiVals map[*ssa.Phi]Value) *smt.Term {
			var v Value
			if phiVals != nil {
				v = phiVals[p]
			} else {
				v = st.env[p]
			}
			t := v.(Scalar).T
			if signed {
				return c.BVSle(initT, t)
			}
			return c.BVUle(initT, t)
		}})
	}
	for _, inv := range invs {
		inv := inv
		// an invariant that names a local the code no longer has is dropped with
		// a note (the derived invariant below may still carry the proof); it is
		// never a reason to stop
		if e.DB.Dropped[FuncKey(b.fn)+"/inv/"+label+"/"+clauseLabel(inv)] {
			e.note("%s: invariant `%s` not used: it failed, the function is re-verified without it", label, inv.Text)
			continue
		}
		if msg := b.invResolves(inv, names, stIn, label, ctrPhi, li); msg != "" {
			e.note("%s: invariant `%s` not used: %s", label, inv.Text, msg)
			continue
		}
		items = append(items, invItem{label: clauseLabel(inv), eval: func(st *State, phiVals map[*ssa.Phi]Value) *smt.Term {
			over := map[string]specVar{}
			if phiVals != nil {
				for _, p := range phis {
					v := phiVals[p]
					if p.Comment != "" {
						over[p.Comment] = func(*State) Value { return v }
					}
				}
			}
			// localof("T"): the local variable of type T visible at the loop head
			// when there is exactly one (parameters excluded)
			for ts, nb := range b.localsByType(names) {
				nb := nb
				over["#localof:"+ts] = func(s2 *State) Value {
					v, ok := s2.env[nb.val]
					if !ok {
						v = e.eval(s2, nb.val)
					}
					if nb.isAddr {
						if p, ok := v.(*PtrV); ok {
							se := &specEnv{e: e, st: s2}
							return se.deref(p)
						}
					}
					return v
				}
			}
			// loopvar("T"): the loop-carried variable of type T when there is
			// exactly one (a name-independent way to mention it)
			byType := map[string][]*ssa.Phi{}
			for _, p := range phis {
				byType[p.Type().String()] = append(byType[p.Type().String()], p)
			}
			for ts, ps := range byType {
				if len(ps) != 1 {
					continue
				}
				p := ps[0]
				over["#loopvar:"+ts] = func(s2 *State) Value {
					if phiVals != nil {
						return phiVals[p]
					}
					return s2.env[p]
				}
			}
			if ctrPhi != nil {
				// `loopindex`: the index the iteration at this loop head works on,
				// whatever the loop form (range loops keep the previous index in
				// their header phi)
				over["loopindex"] = func(s2 *State) Value {
					var v Value
					if phiVals != nil {
						v = phiVals[ctrPhi]
					} else {
						v = s2.env[ctrPhi]
					}
					t := v.(Scalar).T
					if li.rangeLoop {
						t = c.BVAdd(t, c.BVC(1, t.Sort.W))
					}
					return Scalar{T: t, Typ: ctrPhi.Type()}
				}
			}
			return e.evalSpecBool(inv, b.specVars(names, over), st, e.entryState(), label+" invariant")
		}})
	}
	// inv-init
	for _, it := range items {
		e.oblige(stIn, "inv-init", label+"/"+it.label, it.eval(stIn, nil), pos)
	}
	// discovery of the write set (dry runs until stable)
	writes := map[string]*Loc{}
	for iter := 0; iter < 4; iter++ {
		st := stIn.clone()
		b.havoc(st, phis, writes, li, false)
		saveP, saveR, saveB, savePrep := b.pending, b.rets, b.back, b.prepared
		b.pending = map[*ssa.BasicBlock][]edgeState{}
		b.back = map[*loopInfo][]edgeState{}
		b.prepared = map[*ssa.BasicBlock]*State{h: st}
		oldW := e.writes
		e.writes = map[string]*Loc{}
		e.dry++
		savedFrames := len(e.frames)
		func() {
			defer func() {
				e.dry--
				e.frames = e.frames[:savedFrames]
			}()
			b.runRegion(li.order, li)
		}()
		found := e.writes
		dryBacks := b.back[li]
		e.writes = oldW
		b.pending, b.rets, b.back, b.prepared = saveP, saveR, saveB, savePrep
		grew := false
		for _, es := range dryBacks {
			for k, v := range es.st.ghost {
				hv, ok := st.ghost[k]
				same := ok
				if ok {
					a, isA := v.(Scalar)
					b2, isB := hv.(Scalar)
					same = isA && isB && a.T == b2.T
				}
				if !same && !li.ghostWritten[k] {
					if li.ghostWritten == nil {
						li.ghostWritten = map[string]bool{}
					}
					li.ghostWritten[k] = true
					grew = true
				}
			}
		}
		for k, l := range found {
			// only what a *continuing* iteration leaves behind is carried to the
			// next one: a location written solely on paths that leave the loop
			// (e.g. `x[i] = v; break`) still has its header value at every back edge
			carried := false
			for _, es := range dryBacks {
				if v, ok := es.st.mem[l.Obj]; ok && v != st.mem[l.Obj] {
					carried = true
				}
			}
			if !carried && len(dryBacks) > 0 {
				continue
			}
			if l.Obj.Pre || stIn.mem[l.Obj] != nil || hasObj(stIn, l.Obj) {
				if _, ok := writes[k]; !ok {
					writes[k] = l
					grew = true
				}
			}
		}
		if !grew {
			break
		}
	}
	// the real pass
	st := stIn
	preVals := map[*Object]Value{}
	for _, l := range writes {
		if v, ok := stIn.mem[l.Obj]; ok {
			preVals[l.Obj] = v
		}
	}
	b.havoc(st, phis, writes, li, true)
	if e.writes != nil {
		for k, l := range writes {
			e.writes[k] = l
		}
	}
	for _, it := range items {
		e.assume(st, it.eval(st, nil))
	}
	// Derived invariant of a read-only counting loop ("search loop"): the only
	// loop-carried value is a counter stepping by one and the body writes
	// nothing that outlives an iteration.  Then at the head of the iteration
	// with counter value i every earlier iteration j in [init, i) ran the same
	// body on the same memory and took a back edge, so everything assumed on
	// the way (callee postconditions, definitions) and the back-edge path
	// condition hold with j for i.  Symbols created inside the body are Skolem
	// functions of the counter (smt.Ctx.FreshParams) so that this
	// generalisation is meaningful.  The invariant is named by a propositional
	// placeholder assumed here and defined after the body has been executed.
	var autoB, ctrT *smt.Term
	autoOK := ctrPhi != nil && len(st.ghost) == 0 && !e.noAutoInv
	var mapArrs []mapArr
	for _, k := range sortedKeys(writes) {
		// a local that every iteration overwrites before using it (the copy of
		// the element in `for _, x := range xs`) carries nothing from one
		// iteration to the next
		if b.iterationLocal(li, writes[k].Obj, stIn) {
			continue
		}
		// a local array that iteration j writes at index j only ("map loop"):
		// decided after the body has been executed (defineAutoInv)
		l := writes[k]
		if pv, ok := preVals[l.Obj].(*ArrV); ok && !l.Obj.Pre && len(l.Path) == 1 && l.Path[0].Idx != nil {
			if hv, ok := st.mem[l.Obj].(*ArrV); ok {
				if _, scalar := hv.Read(c.BVC(0, 64)).(Scalar); scalar {
					mapArrs = append(mapArrs, mapArr{obj: l.Obj, pre: pv, hdr: hv})
					continue
				}
			}
		}
		autoOK = false
	}
	if os.Getenv("GOVC_DEBUG") != "" {
		fmt.Fprintf(os.Stderr, "loop %s.%s: phis=%d ctr=%v writes=%v ghost=%d\n", b.fn.Name(), label, len(phis), ctrPhi != nil, sortedKeys(writes), len(st.ghost))
	}
	if autoOK {
		ctrT = st.env[ctrPhi].(Scalar).T
		autoB = c.Fresh(fmt.Sprintf("autoinv_%s_l%d", b.fn.Name(), li.ordinal), smt.Bool)
		e.assume(st, autoB)
	}
	hdrFacts := st.facts
	hdrRecs := len(st.recs)
	axBefore := len(e.Axioms)
	objsBefore := e.objs
	var dec0 *smt.Term
	if li.spec != nil && li.spec.Decreases != nil {
		dec0 = b.e.evalSpecIndex(*li.spec.Decreases, b.specVars(names, nil), st, e.entryState(), label+" decreases")
	}
	b.prepared[h] = st
	b.back[li] = nil
	if autoOK {
		c.FreshParams = append(c.FreshParams, ctrT)
		func() {
			defer func() { c.FreshParams = c.FreshParams[:len(c.FreshParams)-1] }()
			b.runRegion(li.order, li)
		}()
		b.defineAutoInv(li, autoB, ctrT, ctrInit, ctrSigned, hdrFacts, hdrRecs, axBefore, objsBefore, mapArrs)
	} else {
		b.runRegion(li.order, li)
	}
	for _, es := range b.back[li] {
		// bind the header phis to the back-edge values
		k := -1
		for i, p := range h.Preds {
			if p == es.from {
				k = i
			}
		}
		over := map[string]specVar{}
		phiVals := map[*ssa.Phi]Value{}
		for _, p := range phis {
			phiVals[p] = e.eval(es.st, p.Edges[k])
		}
		for _, p := range phis {
			v := phiVals[p]
			if p.Comment != "" {
				over[p.Comment] = func(*State) Value { return v }
			}
		}
		for _, it := range items {
			e.oblige(es.st, "inv-keep", label+"/"+it.label, it.eval(es.st, phiVals), pos)
		}
		if termPhi != nil {
			// termination: the counter strictly increases and the bound it is
			// tested against is the same at the next test
			b0 := b.evalPure(st, termBound).(Scalar).T
			b1 := b.evalPure(es.st, termBound).(Scalar).T
			c0 := st.env[termPhi].(Scalar).T
			c1 := phiVals[termPhi].(Scalar).T
			e.oblige(es.st, "variant", label+"/counter increases towards an unchanged bound", c.And(c.BVSlt(c0, c1), c.Eq(b0, b1)), pos)
		}
		for p := range li.freshPhis {
			if !valueIsLocal(phiVals[p]) {
				e.oblige(es.st, "inv-keep", label+"/loop-carried "+p.Comment+" holds only storage of this call", c.False(), pos)
			}
		}
		if dec0 != nil {
			d1 := e.evalSpecIndex(*li.spec.Decreases, b.specVars(names, over), es.st, e.entryState(), label+" decreases")
			e.oblige(es.st, "variant", label, c.And(c.BVSle(bv64(c, 0), dec0), c.BVSlt(d1, dec0)), pos)
		}
	}
	b.back[li] = nil
	if e.dry == 0 {
		if termPhi != nil {
			e.LoopsTerminating++
		} else {
			e.note("%s.%s: no termination argument (not a counted loop with a recognisable bound)", b.fn.Name(), label)
		}
	}
}

func hasObj(st *State, o *Object) bool {
	_, ok := st.mem[o]
	return ok
}

func clauseLabel(cl Clause) string {
	if cl.Tag != "" {
		return cl.Tag
	}
	return cl.Text
}

// havoc replaces header phis and written locations by fresh values.
func (b *bodyRun) havoc(st *State, phis []*ssa.Phi, writes map[string]*Loc, li *loopInfo, real bool) {
	e := b.e
	for _, p := range phis {
		name := p.Comment
		if name == "" {
			name = p.Name()
		}
		entryLocal := valueIsLocal(st.env[p])
		v := e.fresh(p.Type(), fmt.Sprintf("%s_%s_l%d", b.fn.Name(), name, li.ordinal))
		if entryLocal {
			// a loop-carried slice / pointer that only ever holds storage of this
			// call (checked again at every back edge) stays writable
			markFresh(v)
			if li.freshPhis == nil {
				li.freshPhis = map[*ssa.Phi]bool{}
			}
			li.freshPhis[p] = true
		}
		st.env[p] = v
		if s, ok := v.(Scalar); ok && s.T.Sort == smt.BV(64) && real {
			e.cands = append(e.cands, s.T)
		}
	}
	// ghost variables are arbitrary at the head of an arbitrary iteration
	if st.ghost != nil {
		ng := map[string]Value{}
		var gks []string
		for k := range st.ghost {
			gks = append(gks, k)
		}
		sort.Strings(gks)
		for _, k := range gks {
			if !li.ghostWritten[k] {
				ng[k] = st.ghost[k] // not assigned inside the loop
				continue
			}
			ng[k] = e.havocLike(st.ghost[k], fmt.Sprintf("%s_ghost_%s_l%d", b.fn.Name(), k, li.ordinal))
		}
		st.ghost = ng
	}
	for _, k := range sortedKeys(writes) {
		l := writes[k]
		// havoc the whole prefix location (path up to the first index)
		var path []PathElem
		for _, pe := range l.Path {
			if pe.Idx != nil {
				break
			}
			path = append(path, pe)
		}
		hl := &Loc{Obj: l.Obj, Path: path}
		old := e.loadLoc(st, hl)
		nv := e.havocLike(old, fmt.Sprintf("%s_hv_l%d", b.fn.Name(), li.ordinal))
		st.mem[l.Obj] = e.setPath(e.contents(st, l.Obj), hl.Path, nv)
	}
}

// havocLike returns a fresh value shaped like old.
func (e *Exec) havocLike(old Value, name string) Value {
	c := e.C
	switch v := old.(type) {
	case Scalar:
		return Scalar{T: c.Fresh(name, v.T.Sort), Typ: v.Typ}
	case *ArrV:
		fn := c.FreshName(name + "_arr")
		el := v.Elem
		params := append([]*smt.Term{}, c.FreshParams...)
		return &ArrV{Elem: el, N: v.N, Read: func(i *smt.Term) Value {
			return e.fromTerm(el, c.App(fn, sortOf(el), append(append([]*smt.Term{}, params...), i)...), name+"[]")
		}}
	case *StructV:
		s := &StructV{T: v.T, F: make([]Value, len(v.F))}
		s.lazy = func(i int) Value { return e.havocLike(v.Field(i), fmt.Sprintf("%s_%s", name, v.T.Field(i).Name())) }
		return s
	case *SliceV:
		return e.fresh(types_NewSlice(v.Elem), name)
	case *PtrV:
		return e.fresh(types_NewPointer(v.Elem), name)
	case *IfaceV:
		return e.fresh(v.Typ, name)
	case *MapV:
		return &MapV{ID: c.Fresh(name, refSort), Typ: v.Typ}
	case *FuncV:
		return &FuncV{ID: c.Fresh(name, refSort)}
	}
	e.refuse("havoc of %T", old)
	return nil
}

// loopNames collects source-level names visible at the loop header.
type nameBinding struct {
	val    ssa.Value
	isAddr bool
}

func (b *bodyRun) loopNames(li *loopInfo) map[string]nameBinding {
	names := map[string]nameBinding{}
	// walk dominators from entry to header
	var chain []*ssa.BasicBlock
	for x := li.header.Idom(); x != nil; x = x.Idom() {
		chain = append(chain, x)
	}
	for i := len(chain) - 1; i >= 0; i-- {
		collectNames(chain[i], names)
	}
	for _, ins := range li.header.Instrs {
		if p, ok := ins.(*ssa.Phi); ok {
			if p.Comment != "" {
				names[p.Comment] = nameBinding{val: p}
			}
		}
	}
	return names
}

func collectNames(blk *ssa.BasicBlock, names map[string]nameBinding) {
	for _, ins := range blk.Instrs {
		switch x := ins.(type) {
		case *ssa.DebugRef:
			if id, ok := x.Expr.(interface{ String() string }); ok {
				_ = id
			}
			if x.X == nil {
				continue
			}
			if name := debugRefName(x); name != "" {
				names[name] = nameBinding{val: x.X, isAddr: x.IsAddr}
			}
		case *ssa.Alloc:
			if x.Comment != "" {
				names[x.Comment] = nameBinding{val: x, isAddr: true}
			}
		}
	}
}

// specVars builds the variable environment for invariants.
func (b *bodyRun) specVars(names map[string]nameBinding, over map[string]specVar) map[string]specVar {
	e := b.e
	vars := map[string]specVar{}
	for _, p := range b.fn.Params {
		p := p
		vars[p.Name()] = func(st *State) Value { return e.paramValue(st, p) }
	}
	for _, fv := range b.fn.FreeVars {
		fv := fv
		vars[fv.Name()] = func(st *State) Value { return st.env[fv] }
	}
	if b.spec != nil {
		for i, n := range b.spec.Params {
			if i < len(b.fn.Params) {
				p := b.fn.Params[i]
				vars[n] = func(st *State) Value { return e.paramValue(st, p) }
			}
		}
	}
	for n, nb := range names {
		nb := nb
		vars[n] = func(st *State) Value {
			v, ok := st.env[nb.val]
			if !ok {
				v = e.eval(st, nb.val)
			}
			if nb.isAddr {
				if p, ok := v.(*PtrV); ok {
					se := &specEnv{e: e, st: st}
					return se.deref(p)
				}
			}
			return v
		}
	}
	for n, f := range over {
		vars[n] = f
	}
	return vars
}

func (e *Exec) paramValue(st *State, p *ssa.Parameter) Value {
	if v, ok := st.env[p]; ok {
		return v
	}
	if e.entry != nil {
		if v, ok := e.entry.env[p]; ok {
			return v
		}
	}
	e.refuse("parameter %s not bound", p.Name())
	return nil
}

func (e *Exec) entryState() *State { return e.entry }

// valueIsLocal: a slice / pointer value all of whose targets are local (or
// declared fresh) objects, or nil.
func valueIsLocal(v Value) bool {
	switch x := v.(type) {
	case *SliceV:
		for _, al := range x.Alts {
			if al.Loc != nil && al.Loc.Obj.Pre && !al.Loc.Obj.Fresh {
				return false
			}
		}
		return true
	case *PtrV:
		for _, al := range x.Alts {
			if al.Loc != nil && al.Loc.Obj.Pre && !al.Loc.Obj.Fresh {
				return false
			}
		}
		return true
	}
	return false
}

func markFresh(v Value) {
	switch x := v.(type) {
	case *SliceV:
		for _, al := range x.Alts {
			if al.Loc != nil {
				al.Loc.Obj.Fresh = true
			}
		}
	case *PtrV:
		for _, al := range x.Alts {
			if al.Loc != nil {
				al.Loc.Obj.Fresh = true
			}
		}
	}
}


// invResolves evaluates an invariant once at the loop entry state and reports
// why it cannot be evaluated ("" when it can).
func (b *bodyRun) invResolves(inv Clause, names map[string]nameBinding, st *State, label string, ctrPhi *ssa.Phi, li *loopInfo) (msg string) {
	e := b.e
	defer func() {
		if r := recover(); r != nil {
			if se, ok := r.(specError); ok {
				msg = se.msg
				return
			}
			panic(r)
		}
	}()
	e.dry++
	defer func() { e.dry-- }()
	nax := len(e.Axioms)
	over := map[string]specVar{}
	if ctrPhi != nil {
		over["loopindex"] = func(s2 *State) Value { return s2.env[ctrPhi] }
	}
	for ts, nb := range b.localsByType(names) {
		nb := nb
		over["#localof:"+ts] = func(s2 *State) Value {
			if v, ok := s2.env[nb.val]; ok {
				return v
			}
			return e.eval(s2, nb.val)
		}
	}
	for _, ins := range li.header.Instrs {
		p, ok := ins.(*ssa.Phi)
		if !ok {
			break
		}
		p2 := p
		if _, dup := over["#loopvar:"+p.Type().String()]; dup {
			continue
		}
		over["#loopvar:"+p.Type().String()] = func(s2 *State) Value { return s2.env[p2] }
	}
	e.evalSpecBool(inv, b.specVars(names, over), st.clone(), e.entryState(), label+" invariant")
	e.Axioms = e.Axioms[:nax]
	return ""
}

// defineAutoInv adds the definition of the placeholder assumed at the head of
// a search loop (see runLoop).
// mapArr is a local array written by a loop whose derived invariant is being
// built: pre is its value before the loop, hdr its (arbitrary) value at the
// head of an arbitrary iteration.
type mapArr struct {
	obj      *Object
	pre, hdr *ArrV
}

func (b *bodyRun) defineAutoInv(li *loopInfo, autoB, ctr, init *smt.Term, signed bool, hdrFacts *facts, hdrRecs, axBefore, objsBefore int, mapArrs []mapArr) {
	e := b.e
	c := e.C
	backs := b.back[li]
	if len(backs) == 0 {
		return
	}
	for _, es := range backs {
		if len(es.st.recs) != hdrRecs {
			return // the body appends to a ghost trace: not a search loop
		}
	}
	inHdr := map[int]bool{}
	for _, f := range hdrFacts.collect() {
		inHdr[f.ID] = true
	}
	// generalise over the index the iteration works on: for range loops the
	// header phi is the previous index and the body uses phi+1, so the bound
	// variable stands for phi+1 (no arithmetic inversion is then needed to
	// match a[phi+1] against a[k])
	jv := c.BoundVar("it", ctr.Sort)
	one := c.BVC(1, ctr.Sort.W)
	sub := map[*smt.Term]*smt.Term{ctr: jv}
	lo, hi := init, ctr // lo <= jv < hi
	if li.rangeLoop {
		sub = map[*smt.Term]*smt.Term{c.BVAdd(ctr, one): jv, ctr: c.BVSub(jv, one)}
		lo, hi = c.BVAdd(init, one), c.BVAdd(ctr, one)
	}
	var parts []*smt.Term
	seen := map[int]bool{}
	add := func(t *smt.Term) {
		if t.IsTrue() || seen[t.ID] {
			return
		}
		seen[t.ID] = true
		parts = append(parts, c.Subst(t, sub))
	}
	for _, a := range e.Axioms[axBefore:] {
		if smt.Mentions(a, ctr) {
			add(a)
		}
	}
	var conts []*smt.Term
	for _, es := range backs {
		for _, f := range es.st.facts.collect() {
			if !inHdr[f.ID] {
				add(f)
			}
		}
		conts = append(conts, es.st.guard)
	}
	add(c.Or(conts...))
	// map loops: iteration j stores V(j) at index j of a local array and the
	// body never reads that array.  Then at the head of iteration i the array
	// holds V(j) at every j in [lo, i) and its pre-loop contents elsewhere.
	var outside []*smt.Term // conjuncts not under the range guard
	if len(mapArrs) > 0 {
		if len(backs) != 1 {
			e.note("loop%d: derived invariant not used (map loop with several back edges)", li.ordinal)
			return
		}
		probe := c.BoundVar("x", smt.BV(64))
		for _, ma := range mapArrs {
			hv := ma.hdr.Read(probe).(Scalar).T
			if hv.Op != "app" {
				return
			}
			after, ok := backs[0].st.mem[ma.obj].(*ArrV)
			if !ok {
				return
			}
			r := after.Read(probe).(Scalar).T
			// expected shape: ite(probe == IDX, V, hv(probe)) with IDX the index
			// this iteration works on
			if r.Op != "ite" || r.Args[2] != hv || r.Args[0].Op != "=" {
				e.note("loop%d: derived invariant not used (array %s is not written at exactly one index per iteration)", li.ordinal, ma.obj.Name)
				return
			}
			var idx *smt.Term
			switch {
			case r.Args[0].Args[0] == probe:
				idx = r.Args[0].Args[1]
			case r.Args[0].Args[1] == probe:
				idx = r.Args[0].Args[0]
			default:
				return
			}
			if c.Subst(idx, sub) != jv {
				e.note("loop%d: derived invariant not used (array %s is written at an index other than the loop's)", li.ordinal, ma.obj.Name)
				return
			}
			val := r.Args[1]
			// the body must not read the array (its head-of-iteration contents
			// differ from one iteration to the next)
			for _, p := range parts {
				if smt.MentionsFunc(p, hv.Name) {
					e.note("loop%d: derived invariant not used (the body reads array %s)", li.ordinal, ma.obj.Name)
					return
				}
			}
			if smt.MentionsFunc(val, hv.Name) {
				return
			}
			hvAt := func(x *smt.Term) *smt.Term { return c.Subst(hv, map[*smt.Term]*smt.Term{probe: x}) }
			parts = append(parts, c.Eq(hvAt(jv), c.Subst(val, sub)))
			var out *smt.Term
			if signed {
				out = c.Or(c.BVSlt(probe, lo), c.BVSle(hi, probe))
			} else {
				out = c.Or(c.BVUlt(probe, lo), c.BVUle(hi, probe))
			}
			pre := ma.pre.Read(probe).(Scalar).T
			outside = append(outside, c.Forall([]*smt.Term{probe}, c.Implies(out, c.Eq(hv, pre))))
		}
	}
	body := c.And(parts...)
	// objects allocated inside the body have one address per symbolic
	// iteration; a generalised fact keyed by such an address would conflate
	// iterations, so give up if one occurs
	if e.objs > objsBefore && mentionsLocalAddr(body, objsBefore, e.objs) {
		e.note("loop%d: derived invariant not used (the body allocates objects whose addresses occur in assumptions)", li.ordinal)
		return
	}
	var rng *smt.Term
	if signed {
		rng = c.And(c.BVSle(lo, jv), c.BVSlt(jv, hi))
	} else {
		rng = c.And(c.BVUle(lo, jv), c.BVUlt(jv, hi))
	}
	e.Axioms = append(e.Axioms, c.Implies(autoB, c.Forall([]*smt.Term{jv}, c.Implies(rng, body))))
	for _, o := range outside {
		e.Axioms = append(e.Axioms, c.Implies(autoB, o))
	}
	e.AutoInvs++
}

// mentionsLocalAddr reports whether t contains the address constant of an
// object numbered in (lo, hi].
func mentionsLocalAddr(t *smt.Term, lo, hi int) bool {
	seen := map[int]bool{}
	var rec func(x *smt.Term) bool
	rec = func(x *smt.Term) bool {
		if seen[x.ID] {
			return false
		}
		seen[x.ID] = true
		if x.Op == "bv" && x.Sort.W == 64 {
			v := -x.SVal()
			if v > int64(lo) && v <= int64(hi) {
				return true
			}
		}
		for _, a := range x.Args {
			if rec(a) {
				return true
			}
		}
		return false
	}
	return rec(t)
}


// iterationLocal reports whether obj is a local variable allocated outside the
// loop that each iteration stores as a whole before any other use of it inside
// the loop (dominance check on the SSA).
func (b *bodyRun) iterationLocal(li *loopInfo, obj *Object, st *State) bool {
	if obj.Pre {
		return false
	}
	var al *ssa.Alloc
	for v, val := range st.env {
		a, ok := v.(*ssa.Alloc)
		if !ok || li.blocks[a.Block()] {
			continue
		}
		if p, ok := val.(*PtrV); ok && len(p.Alts) == 1 && p.Alts[0].Loc != nil && p.Alts[0].Loc.Obj == obj && len(p.Alts[0].Loc.Path) == 0 {
			al = a
		}
	}
	if al == nil {
		return false
	}
	// uses of the variable (and of addresses derived from it) inside the loop
	type use struct {
		ins ssa.Instruction
	}
	var uses []ssa.Instruction
	var whole *ssa.Store
	seen := map[ssa.Value]bool{}
	var walk func(v ssa.Value)
	walk = func(v ssa.Value) {
		if seen[v] {
			return
		}
		seen[v] = true
		refs := v.Referrers()
		if refs == nil {
			return
		}
		for _, r := range *refs {
			if _, isDbg := r.(*ssa.DebugRef); isDbg {
				continue
			}
			if !li.blocks[r.Block()] {
				continue
			}
			if s, ok := r.(*ssa.Store); ok && s.Addr == ssa.Value(al) && v == ssa.Value(al) && s.Val != ssa.Value(al) {
				if whole == nil {
					whole = s
				} else {
					uses = append(uses, r)
				}
				continue
			}
			uses = append(uses, r)
			switch x := r.(type) {
			case *ssa.FieldAddr:
				walk(x)
			case *ssa.IndexAddr:
				walk(x)
			}
		}
	}
	walk(al)
	if whole == nil {
		return false
	}
	pos := func(ins ssa.Instruction) int {
		for i, x := range ins.Block().Instrs {
			if x == ins {
				return i
			}
		}
		return -1
	}
	for _, u := range uses {
		if u.Block() == whole.Block() {
			if pos(u) <= pos(whole) {
				return false
			}
			continue
		}
		if !whole.Block().Dominates(u.Block()) {
			return false
		}
	}
	return true
}


// evalPure evaluates v in st; a value that is not in the environment yet
// because its (pure) defining instructions sit in a loop header that has not
// been executed from this state is computed on a scratch copy of the state.
func (b *bodyRun) evalPure(st *State, v ssa.Value) Value {
	e := b.e
	if _, ok := st.env[v]; ok {
		return e.eval(st, v)
	}
	switch v.(type) {
	case *ssa.Const, *ssa.Global, *ssa.Function:
		return e.eval(st, v)
	}
	tmp := st.clone()
	e.dry++
	defer func() { e.dry-- }()
	var need func(x ssa.Value)
	need = func(x ssa.Value) {
		if _, ok := tmp.env[x]; ok {
			return
		}
		ins, ok := x.(ssa.Instruction)
		if !ok {
			return
		}
		switch y := x.(type) {
		case *ssa.FieldAddr:
			need(y.X)
		case *ssa.Field:
			need(y.X)
		case *ssa.UnOp:
			need(y.X)
		case *ssa.Call:
			for _, a := range y.Call.Args {
				need(a)
			}
		default:
			return
		}
		e.step(tmp, ins)
	}
	need(v)
	return e.eval(tmp, v)
}


// localsByType maps a type (as written in Go, with uint8 spelt byte) to the
// local variable of that type among names, when exactly one has it.
func (b *bodyRun) localsByType(names map[string]nameBinding) map[string]nameBinding {
	params := map[string]bool{}
	for _, p := range b.fn.Params {
		params[p.Name()] = true
	}
	count := map[string]int{}
	pick := map[string]nameBinding{}
	var keys []string
	for n := range names {
		keys = append(keys, n)
	}
	sort.Strings(keys)
	for _, n := range keys {
		nb := names[n]
		if params[n] {
			continue
		}
		T := nb.val.Type()
		if nb.isAddr {
			T = derefType(T)
		}
		// the type may be written with the full package path, with the package
		// name, or (for types of the package itself) unqualified
		forms := map[string]bool{}
		for _, q := range []types.Qualifier{nil, func(p *types.Package) string { return p.Name() }, func(p *types.Package) string {
			if p == b.fn.Pkg.Pkg {
				return ""
			}
			return p.Name()
		}} {
			forms[strings.ReplaceAll(types.TypeString(T, q), "uint8", "byte")] = true
		}
		for ts := range forms {
			count[ts]++
			pick[ts] = nb
		}
	}
	out := map[string]nameBinding{}
	for ts, k := range count {
		if k == 1 {
			out[ts] = pick[ts]
		}
	}
	return out
}
