package vc

import (
	"fmt"
	"go/token"
	"go/types"
	"strings"

	"govc/smt"

	"golang.org/x/tools/go/ssa"
)

func (e *Exec) builtin(st *State, b *ssa.Builtin, cc *ssa.CallCommon, args []Value, pos token.Pos) Value {
	c := e.C
	switch b.Name() {
	case "len", "cap":
		switch v := args[0].(type) {
		case *SliceV:
			if b.Name() == "len" {
				return Scalar{T: v.Len, Typ: intTyp}
			}
			return Scalar{T: v.Cap, Typ: intTyp}
		case Scalar:
			if v.T.Sort == sortStr {
				return Scalar{T: c.App("str_len", smt.BV(64), v.T), Typ: intTyp}
			}
		case *PtrV:
			if a, ok := v.Elem.Underlying().(*types.Array); ok {
				return Scalar{T: bv64(c, a.Len()), Typ: intTyp}
			}
		case *ArrV:
			return Scalar{T: bv64(c, v.N), Typ: intTyp}
		case *MapV:
			ln := c.App("map_len", smt.BV(64), v.ID)
			e.addAxioms(c.BVSle(bv64(c, 0), ln))
			return Scalar{T: ln, Typ: intTyp}
		}
		e.refuse("%s of %T", b.Name(), args[0])
	case "append":
		return e.appendOp(st, args, cc, pos)
	case "copy":
		dst, ok := args[0].(*SliceV)
		if !ok {
			e.refuse("copy into %T", args[0])
		}
		var srcLen *smt.Term
		var srcRead func(i *smt.Term) Value
		switch s := args[1].(type) {
		case *SliceV:
			srcLen = s.Len
			snap := e.snapSlice(st, s)
			srcRead = snap
		case Scalar:
			if s.T.Sort != sortStr {
				e.refuse("copy from %T", args[1])
			}
			srcLen = c.App("str_len", smt.BV(64), s.T)
			srcRead = func(i *smt.Term) Value { return Scalar{T: c.App("str_at", smt.BV(8), s.T, i), Typ: dst.Elem} }
		default:
			e.refuse("copy from %T", args[1])
		}
		n := c.Ite(c.BVSlt(dst.Len, srcLen), dst.Len, srcLen)
		label := "copy(" + srcText(e, cc.Args[0], 0) + ", " + srcText(e, cc.Args[1], 0) + ")"
		e.writeRange(st, dst, bv64(c, 0), n, srcRead, label, pos)
		return Scalar{T: n, Typ: intTyp}
	case "panic":
		e.oblige(st, "panic", "explicit panic", c.False(), pos)
		st.guard = c.False()
		return &TupleV{}
	case "print", "println":
		return &TupleV{}
	case "min", "max":
		w, signed, ok := intInfo(cc.Args[0].Type())
		if !ok {
			e.refuse("min/max on non-integers")
		}
		_ = w
		res := args[0].(Scalar)
		for _, a := range args[1:] {
			s := a.(Scalar)
			var lt *smt.Term
			if signed {
				lt = c.BVSlt(s.T, res.T)
			} else {
				lt = c.BVUlt(s.T, res.T)
			}
			if b.Name() == "max" {
				lt = c.Not(c.Or(lt, c.Eq(s.T, res.T)))
			}
			res = Scalar{T: c.Ite(lt, s.T, res.T), Typ: res.Typ}
		}
		return res
	case "ssa:wrapnilchk":
		if p, ok := args[0].(*PtrV); ok {
			e.nilCheck(st, p, "method value receiver", pos)
		}
		return args[0]
	}
	e.refuse("unsupported builtin %s", b.Name())
	return nil
}

// snapSlice returns a reader over the current contents of s.
func (e *Exec) snapSlice(st *State, s *SliceV) func(i *smt.Term) Value {
	c := e.C
	type alt struct {
		cond *smt.Term
		arr  *ArrV
		off  *smt.Term
	}
	var alts []alt
	for _, al := range s.Alts {
		if al.Loc == nil {
			continue
		}
		arr, ok := e.loadLoc(st, al.Loc).(*ArrV)
		if !ok {
			e.refuse("slice backing store is not an array")
		}
		alts = append(alts, alt{al.Cond, arr, al.Off})
	}
	elem := s.Elem
	return func(i *smt.Term) Value {
		var res Value
		for k := len(alts) - 1; k >= 0; k-- {
			v := alts[k].arr.Read(c.BVAdd(alts[k].off, i))
			if res == nil {
				res = v
			} else {
				res = e.merge(alts[k].cond, v, res)
			}
		}
		if res == nil {
			return e.zero(elem)
		}
		return res
	}
}

// writeRange writes n elements read(0..n-1) into dst[start...].
func (e *Exec) writeRange(st *State, dst *SliceV, start, n *smt.Term, read func(i *smt.Term) Value, label string, pos token.Pos) {
	c := e.C
	nonEmpty := c.BVSlt(bv64(c, 0), n)
	for _, al := range dst.Alts {
		if al.Loc == nil {
			continue
		}
		e.frameCheck(st, al.Loc, c.And(al.Cond, nonEmpty), label, pos)
		old, ok := e.loadLoc(st, al.Loc).(*ArrV)
		if !ok {
			e.refuse("slice backing store is not an array")
		}
		lo := c.BVAdd(al.Off, start)
		hi := c.BVAdd(lo, n)
		cond := al.Cond
		nv := &ArrV{Elem: old.Elem, N: old.N, Read: func(i *smt.Term) Value {
			in := c.And(cond, c.BVSle(lo, i), c.BVSlt(i, hi))
			return e.merge(in, read(c.BVSub(i, lo)), old.Read(i))
		}}
		e.storeLoc(st, al.Loc, nv)
	}
}

func (e *Exec) appendOp(st *State, args []Value, cc *ssa.CallCommon, pos token.Pos) Value {
	c := e.C
	s, ok := args[0].(*SliceV)
	if !ok {
		e.refuse("append to %T", args[0])
	}
	var n *smt.Term
	var read func(i *smt.Term) Value
	switch t := args[1].(type) {
	case *SliceV:
		n = t.Len
		read = e.snapSlice(st, t)
	case Scalar:
		if t.T.Sort != sortStr {
			e.refuse("append of %T", args[1])
		}
		n = c.App("str_len", smt.BV(64), t.T)
		read = func(i *smt.Term) Value { return Scalar{T: c.App("str_at", smt.BV(8), t.T, i), Typ: s.Elem} }
	default:
		e.refuse("append of %T", args[1])
	}
	z := bv64(c, 0)
	newLen := c.BVAdd(s.Len, n)
	label := "append(" + srcText(e, cc.Args[0], 0) + ", " + srcText(e, cc.Args[1], 0) + "...)"
	// in-place write into spare capacity of memory that pre-dates the call
	inPlace := c.And(c.BVSlt(z, n), c.BVSle(newLen, s.Cap))
	for _, al := range s.Alts {
		if al.Loc == nil {
			continue
		}
		e.frameCheck(st, al.Loc, c.And(al.Cond, inPlace), label, pos)
	}
	oldRead := e.snapSlice(st, s)
	sLen := s.Len
	o := e.newLocal(mkRegionType(s.Elem), "append")
	st.mem[o] = &ArrV{Elem: s.Elem, N: -1, Read: func(i *smt.Term) Value {
		return e.merge(c.BVSlt(i, sLen), oldRead(i), read(c.BVSub(i, sLen)))
	}}
	capT := c.Fresh("appcap", smt.BV(64))
	e.addAxioms(c.BVSle(capT, c.BVC(1<<40, 64)))
	e.assume(st, c.BVSle(newLen, capT))
	// the result is s itself when nothing is appended
	same := c.Eq(n, z)
	// the capacity is that of s when the appended elements fit (no growth)
	res := &SliceV{Elem: s.Elem, Len: newLen, Cap: c.Ite(c.Or(same, c.BVSle(newLen, s.Cap)), s.Cap, capT)}
	for _, al := range s.Alts {
		res.addAlt(c, c.And(same, al.Cond), al.Loc, al.Off)
	}
	res.addAlt(c, c.Not(same), &Loc{Obj: o}, z)
	return res
}

// ---- native models of external functions (assumed contracts) ----

type nativeFn func(e *Exec, st *State, f *ssa.Function, args []Value, pos token.Pos) Value

var natives map[string]nativeFn

func init() {
	natives = map[string]nativeFn{
		"bytes.Equal": func(e *Exec, st *State, f *ssa.Function, args []Value, pos token.Pos) Value {
			a, b := e.sliceSeq(st, args[0].(*SliceV)), e.sliceSeq(st, args[1].(*SliceV))
			return Scalar{T: e.nameQuant(st, e.seqEq(a, b)), Typ: boolTyp}
		},
		// generic helpers of package slices, instantiated for scalar element
		// types (looked up without their type-argument suffix)
		"slices.Equal": func(e *Exec, st *State, f *ssa.Function, args []Value, pos token.Pos) Value {
			a, ok1 := args[0].(*SliceV)
			b, ok2 := args[1].(*SliceV)
			if !ok1 || !ok2 {
				return Scalar{T: e.C.Fresh("slices_equal", smt.Bool), Typ: boolTyp}
			}
			if _, _, isInt := intInfo(a.Elem); !isInt {
				return Scalar{T: e.C.Fresh("slices_equal", smt.Bool), Typ: boolTyp}
			}
			return Scalar{T: e.nameQuant(st, e.seqEq(e.sliceSeq(st, a), e.sliceSeq(st, b))), Typ: boolTyp}
		},
		"slices.Contains": func(e *Exec, st *State, f *ssa.Function, args []Value, pos token.Pos) Value {
			c := e.C
			a, ok1 := args[0].(*SliceV)
			v, ok2 := args[1].(Scalar)
			if !ok1 || !ok2 {
				return Scalar{T: c.Fresh("slices_contains", smt.Bool), Typ: boolTyp}
			}
			sq := e.sliceSeq(st, a)
			k := c.BoundVar("k", smt.BV(64))
			ex := c.Exists([]*smt.Term{k}, c.And(c.BVSle(bv64(c, 0), k), c.BVSlt(k, sq.Len), c.Eq(sq.Read(k), v.T)))
			return Scalar{T: e.nameQuant(st, ex), Typ: boolTyp}
		},
		"slices.Index": func(e *Exec, st *State, f *ssa.Function, args []Value, pos token.Pos) Value {
			c := e.C
			r := c.Fresh("slices_index", smt.BV(64))
			a, ok1 := args[0].(*SliceV)
			v, ok2 := args[1].(Scalar)
			if ok1 && ok2 {
				sq := e.sliceSeq(st, a)
				z := bv64(c, 0)
				j := c.BoundVar("j", smt.BV(64))
				none := c.Forall([]*smt.Term{j}, c.Implies(c.And(c.BVSle(z, j), c.BVSlt(j, sq.Len)), c.Neq(sq.Read(j), v.T)))
				j2 := c.BoundVar("j", smt.BV(64))
				before := c.Forall([]*smt.Term{j2}, c.Implies(c.And(c.BVSle(z, j2), c.BVSlt(j2, r)), c.Neq(sq.Read(j2), v.T)))
				e.addAxioms(c.Or(c.And(c.Eq(r, bv64(c, -1)), none),
					c.And(c.BVSle(z, r), c.BVSlt(r, sq.Len), c.Eq(sq.Read(r), v.T), before)))
			} else {
				e.addAxioms(c.BVSle(bv64(c, -1), r))
			}
			return Scalar{T: r, Typ: intTyp}
		},
		"bytes.Compare": func(e *Exec, st *State, f *ssa.Function, args []Value, pos token.Pos) Value {
			c := e.C
			a, b := e.sliceSeq(st, args[0].(*SliceV)), e.sliceSeq(st, args[1].(*SliceV))
			r := c.Fresh("cmp", smt.BV(64))
			z := bv64(c, 0)
			lex := func(x, y *SeqV) *smt.Term {
				k := c.BoundVar("k", smt.BV(64))
				j := c.BoundVar("j", smt.BV(64))
				prefix := c.Forall([]*smt.Term{j}, c.Implies(c.And(c.BVSle(z, j), c.BVSlt(j, k)), c.Eq(x.Read(j), y.Read(j))))
				body := c.And(c.BVSle(z, k), c.BVSle(k, x.Len), c.BVSle(k, y.Len), prefix,
					c.Or(c.And(c.BVSlt(k, x.Len), c.BVSlt(k, y.Len), c.BVUlt(x.Read(k), y.Read(k))),
						c.And(c.Eq(k, x.Len), c.BVSlt(k, y.Len))))
				return c.Exists([]*smt.Term{k}, body)
			}
			e.addAxioms(
				c.Or(c.Eq(r, z), c.Eq(r, bv64(c, 1)), c.Eq(r, bv64(c, -1))),
				c.Eq(c.Eq(r, z), e.seqEq(a, b)),
				c.Eq(c.Eq(r, bv64(c, -1)), lex(a, b)),
				c.Eq(c.Eq(r, bv64(c, 1)), lex(b, a)))
			return Scalar{T: r, Typ: intTyp}
		},
		"encoding/binary.littleEndian.Uint16":    leGet(16),
		"encoding/binary.littleEndian.Uint32":    leGet(32),
		"encoding/binary.littleEndian.Uint64":    leGet(64),
		"encoding/binary.littleEndian.PutUint16": lePut(16),
		"encoding/binary.littleEndian.PutUint32": lePut(32),
		"encoding/binary.littleEndian.PutUint64": lePut(64),
		"fmt.Errorf":                             nativeErrorf,
		"errors.New": func(e *Exec, st *State, f *ssa.Function, args []Value, pos token.Pos) Value {
			return e.newError(st, "errors.New", nil)
		},
		"fmt.Sprintf":                 nativeSprintf,
		"fmt.Sprint":                  nativeSprintf,
		"go.uber.org/multierr.Combine": nativeCombine,
		"go.uber.org/multierr.Append": func(e *Exec, st *State, f *ssa.Function, args []Value, pos token.Pos) Value {
			return e.combineErrors(st, []*IfaceV{args[0].(*IfaceV), args[1].(*IfaceV)})
		},
		"encoding/json.Unmarshal": func(e *Exec, st *State, f *ssa.Function, args []Value, pos token.Pos) Value {
			// json.Unmarshal MERGES into its target: members absent from the input
			// keep what the target held.  Only for a target that still holds the
			// zero value it was allocated with is the result the pure decoding:
			//   err == nil ==> *v == jsonDecode_T(data).
			// For any other target the result is arbitrary (an unknown merge); on
			// error the target is arbitrary as well.
			c := e.C
			data := e.seqTerm(st, e.sliceSeq(st, args[0].(*SliceV)))
			errv := e.fresh(errorType, "json_err").(*IfaceV)
			ok := e.ifaceNil(errv)
			iv, isI := args[1].(*IfaceV)
			if !isI || len(iv.Alts) != 1 || iv.Alts[0].Typ == nil {
				e.refuse("json.Unmarshal into a value of unknown dynamic type")
			}
			pv, isP := iv.Alts[0].Val.(*PtrV)
			if !isP {
				e.refuse("json.Unmarshal into a non-pointer")
			}
			T := pv.Elem
			dec := e.fromTerm(T, c.App("jsonDecode_"+sortName(T), sortOf(T), data), "json")
			for _, al := range pv.Alts {
				if al.Loc == nil {
					continue
				}
				e.frameCheck(st, al.Loc, al.Cond, "json.Unmarshal target", pos)
				old := e.loadLoc(st, al.Loc)
				pristine := len(al.Loc.Path) == 0 && al.Loc.Obj.zeroInit != nil && st.mem[al.Loc.Obj] == al.Loc.Obj.zeroInit
				var nv Value
				if pristine {
					nv = e.merge(ok, dec, e.havocLike(old, "json_partial"))
				} else {
					nv = e.havocLike(old, "json_merged")
					e.Externs["encoding/json.Unmarshal into a target that may already hold data: result treated as an arbitrary merge"] = true
				}
				if !al.Cond.IsTrue() {
					nv = e.merge(al.Cond, nv, old)
				}
				e.storeLoc(st, al.Loc, nv)
			}
			return errv
		},
		"encoding/asn1.Unmarshal": func(e *Exec, st *State, f *ssa.Function, args []Value, pos token.Pos) Value {
			// err == nil ==> (*val, rest) == asn1Decode_T(b); rest is a suffix of b (never written)
			c := e.C
			in := args[0].(*SliceV)
			data := e.seqTerm(st, e.sliceSeq(st, in))
			errv := e.fresh(errorType, "asn1_err").(*IfaceV)
			ok := e.ifaceNil(errv)
			iv, isI := args[1].(*IfaceV)
			if !isI || len(iv.Alts) != 1 || iv.Alts[0].Typ == nil {
				e.refuse("asn1.Unmarshal into a value of unknown dynamic type")
			}
			pv, isP := iv.Alts[0].Val.(*PtrV)
			if !isP {
				e.refuse("asn1.Unmarshal into a non-pointer")
			}
			T := pv.Elem
			sn := sortName(T)
			dec := e.fromTerm(T, c.App("asn1Decode_"+sn, sortOf(T), data), "asn1")
			for _, al := range pv.Alts {
				if al.Loc == nil {
					continue
				}
				e.frameCheck(st, al.Loc, al.Cond, "asn1.Unmarshal target", pos)
				old := e.loadLoc(st, al.Loc)
				// like encoding/json, encoding/asn1 leaves parts of the target it
				// does not decode (e.g. an interface field for a NULL value)
				// untouched: only a target still holding its zero value receives
				// the pure decoding
				pristine := len(al.Loc.Path) == 0 && al.Loc.Obj.zeroInit != nil && st.mem[al.Loc.Obj] == al.Loc.Obj.zeroInit
				// the decoded value is a fresh term X with `err == nil ==> X ==
				// asn1Decode_T(data)`: everything read from the target is then a
				// function of X (one alternative, canonical sequence terms), and
				// equals what a contract says about asn1decode(...) by congruence
				xv := c.Fresh("asn1_val", sortOf(T))
				e.assume(st, c.Implies(ok, c.Eq(xv, c.App("asn1Decode_"+sn, sortOf(T), data))))
				nv := e.fromTerm(T, xv, "asn1")
				_ = dec
				if !pristine {
					nv = e.havocLike(old, "asn1_merged")
					e.Externs["encoding/asn1.Unmarshal into a target that may already hold data: result treated as an arbitrary merge"] = true
				}
				if !al.Cond.IsTrue() {
					nv = e.merge(al.Cond, nv, old)
				}
				e.storeLoc(st, al.Loc, nv)
			}
			restSeq := c.App("asn1Rest_"+sn, sortByteSeq, data)
			restLen := c.App("seq_len", smt.BV(64), restSeq)
			e.addAxioms(c.BVSle(bv64(c, 0), restLen), c.BVSle(restLen, in.Len))
			o := e.newLocal(mkRegionType(in.Elem), "asn1rest")
			el := in.Elem
			st.mem[o] = &ArrV{Elem: el, N: -1, Read: func(i *smt.Term) Value {
				return Scalar{T: c.App("seq_at8", smt.BV(8), restSeq, i), Typ: el}
			}}
			rest := &SliceV{Elem: el, Len: restLen, Cap: restLen, Alts: []SliceAlt{{Cond: c.True(), Loc: &Loc{Obj: o}, Off: bv64(c, 0)}}}
			return &TupleV{Vs: []Value{rest, errv}}
		},
		"context.WithTimeout": func(e *Exec, st *State, f *ssa.Function, args []Value, pos token.Pos) Value {
			c := e.C
			d := args[1].(Scalar).T
			ng := map[string]Value{}
			for k, v := range st.ghost {
				ng[k] = v
			}
			now, ok := ng["now"].(Scalar)
			if !ok {
				now = Scalar{T: c.Fresh("ghost_now", smt.BV(64)), Typ: intTyp}
				e.addAxioms(c.BVSle(bv64(c, 0), now.T), c.BVSle(now.T, c.BVC(1<<61, 64)))
				ng["now"] = now
			}
			// the deadline of the context (what <-ctx.Done() waits for)
			ng["ctxdeadline"] = Scalar{T: c.BVAdd(now.T, d), Typ: intTyp}
			st.ghost = ng
			ctx := e.fresh(f.Signature.Results().At(0).Type(), "ctx").(*IfaceV)
			e.addAxioms(c.Not(e.ifaceNil(ctx)))
			cancel := &FuncV{ID: c.Fresh("cancel", refSort)}
			e.addAxioms(c.Neq(cancel.ID, c.BVC(0, 64)))
			return &TupleV{Vs: []Value{ctx, cancel}}
		},
		// a context that is never done: its deadline lies beyond every clock value
		"context.Background": ctxNever,
		"context.TODO":       ctxNever,
		"time.After": func(e *Exec, st *State, f *ssa.Function, args []Value, pos token.Pos) Value {
			return Scalar{T: e.C.App("timer_after", refSort, args[0].(Scalar).T), Typ: f.Signature.Results().At(0).Type()}
		},
		"errors.As": func(e *Exec, st *State, f *ssa.Function, args []Value, pos token.Pos) Value {
			// true iff some error in err's chain has the target's element type
			errv, ok := args[0].(*IfaceV)
			tv, ok2 := args[1].(*IfaceV)
			if !ok || !ok2 || len(tv.Alts) != 1 || tv.Alts[0].Typ == nil {
				e.refuse("errors.As with a target of unknown type")
			}
			pt, isP := tv.Alts[0].Typ.Underlying().(*types.Pointer)
			if !isP {
				e.refuse("errors.As target is not a pointer")
			}
			kind := e.typeID(pt.Elem())
			known := false
			for _, k := range e.errKinds() {
				if k == kind {
					known = true
				}
			}
			var r *smt.Term
			if known {
				r = e.errChainHas(errv, kind)
			} else {
				// a type that is not tracked: only the head of the chain is known
				r = e.C.Fresh("errors_as", smt.Bool)
			}
			// the target is written when the result is true
			e.havocReach(st, tv.Alts[0].Val, "errors_as_target", 0, map[*Object]bool{}, pos)
			return Scalar{T: r, Typ: boolTyp}
		},
		"errors.Unwrap": func(e *Exec, st *State, f *ssa.Function, args []Value, pos token.Pos) Value {
			c := e.C
			errv := args[0].(*IfaceV)
			res := e.fresh(errorType, "unwrapped").(*IfaceV)
			id := e.ifaceIdent(res)
			tag := e.ifaceTag(res)
			for _, k := range e.errKinds() {
				kt := c.BVC(uint64(k), 64)
				has := c.Or(c.Eq(tag, kt), e.errHas(id, k))
				e.addAxioms(c.Implies(c.And(c.Not(e.ifaceNil(res)), has), e.errChainHas(errv, k)))
			}
			return res
		},
		"bytes.Join": func(e *Exec, st *State, f *ssa.Function, args []Value, pos token.Pos) Value {
			// the concatenation of a known number of parts with the separator
			// between them, in fresh memory; otherwise an arbitrary fresh slice
			c := e.C
			parts, ok := args[0].(*SliceV)
			sep, ok2 := args[1].(*SliceV)
			el := types.Typ[types.Byte]
			fresh := func(sq *SeqV) Value {
				o := e.newLocal(mkRegionType(el), "bytes.Join")
				st.mem[o] = &ArrV{Elem: el, N: -1, Read: func(i *smt.Term) Value { return Scalar{T: sq.Read(i), Typ: el} }}
				return &SliceV{Elem: el, Len: sq.Len, Cap: sq.Len, Alts: []SliceAlt{{Cond: c.True(), Loc: &Loc{Obj: o}, Off: bv64(c, 0)}}}
			}
			if ok && ok2 && parts.Len.Op == "bv" && parts.Len.Val <= 8 {
				n := int(parts.Len.Val)
				var seqs []*SeqV
				for i := 0; i < n; i++ {
					pv, isS := e.readSlice(st, parts, c.BVC(uint64(i), 64)).(*SliceV)
					if !isS {
						seqs = nil
						break
					}
					if i > 0 {
						seqs = append(seqs, e.sliceSeq(st, sep))
					}
					seqs = append(seqs, e.sliceSeq(st, pv))
				}
				if seqs != nil || n == 0 {
					if n == 0 {
						return fresh(&SeqV{W: 8, Len: bv64(c, 0), Read: func(i *smt.Term) *smt.Term { return c.BVC(0, 8) }})
					}
					return fresh(catSeq(c, seqs))
				}
			}
			ln := c.Fresh("join_len", smt.BV(64))
			e.addAxioms(c.BVSle(bv64(c, 0), ln), c.BVSle(ln, c.BVC(maxLen, 64)))
			fn := c.FreshName("join_arr")
			return fresh(&SeqV{W: 8, Len: ln, Read: func(i *smt.Term) *smt.Term { return c.App(fn, smt.BV(8), i) }})
		},
		"reflect.DeepEqual": func(e *Exec, st *State, f *ssa.Function, args []Value, pos token.Pos) Value {
			// DeepEqual(x, T{}) with x read from memory is the (uninterpreted)
			// zero-value test of x; anything else is an unconstrained boolean
			// (sound over-approximation)
			structOf := func(v Value) *StructV {
				iv, ok := v.(*IfaceV)
				if !ok || len(iv.Alts) != 1 {
					return nil
				}
				sv, _ := iv.Alts[0].Val.(*StructV)
				return sv
			}
			a, b := structOf(args[0]), structOf(args[1])
			if a != nil && b != nil && types.Identical(a.T, b.T) {
				if a.Zero && !b.Zero {
					a, b = b, a
				}
				if b.Zero && a.Origin != nil {
					return Scalar{T: e.C.App("isZero_"+smt.Sanitize(a.Origin.Sort.String()), smt.Bool, a.Origin), Typ: boolTyp}
				}
			}
			return Scalar{T: e.C.Fresh("deepequal", smt.Bool), Typ: boolTyp}
		},
		"crypto/sha512.Sum384": func(e *Exec, st *State, f *ssa.Function, args []Value, pos token.Pos) Value {
			c := e.C
			in := e.seqTerm(st, e.sliceSeq(st, args[0].(*SliceV)))
			h := c.App("spec_SHA384", sortByteSeq, in)
			e.addAxioms(c.Eq(c.App("seq_len", smt.BV(64), h), bv64(c, 48)))
			el := types.Typ[types.Uint8]
			return &ArrV{Elem: el, N: 48, Read: func(i *smt.Term) Value {
				return Scalar{T: c.App("seq_at8", smt.BV(8), h, i), Typ: el}
			}}
		},
		"bytes.Clone": func(e *Exec, st *State, f *ssa.Function, args []Value, pos token.Pos) Value {
			// nil stays nil; otherwise a copy in fresh memory
			c := e.C
			in := args[0].(*SliceV)
			sq := e.sliceSeq(st, in)
			el := in.Elem
			o := e.newLocal(mkRegionType(el), "bytes.Clone")
			st.mem[o] = &ArrV{Elem: el, N: -1, Read: func(i *smt.Term) Value { return Scalar{T: sq.Read(i), Typ: el} }}
			capT := c.Fresh("clonecap", smt.BV(64))
			e.addAxioms(c.BVSle(sq.Len, capT), c.BVSle(capT, c.BVC(maxLen, 64)))
			isNil := e.sliceNil(in)
			return &SliceV{Elem: el, Len: sq.Len, Cap: c.Ite(isNil, bv64(c, 0), capT), Alts: []SliceAlt{{Cond: isNil}, {Cond: c.Not(isNil), Loc: &Loc{Obj: o}, Off: bv64(c, 0)}}}
		},
		"crypto/sha256.Sum256": func(e *Exec, st *State, f *ssa.Function, args []Value, pos token.Pos) Value {
			c := e.C
			in := e.seqTerm(st, e.sliceSeq(st, args[0].(*SliceV)))
			h := c.App("spec_SHA256", sortByteSeq, in)
			e.addAxioms(c.Eq(c.App("seq_len", smt.BV(64), h), bv64(c, 32)))
			el := types.Typ[types.Uint8]
			return &ArrV{Elem: el, N: 32, Read: func(i *smt.Term) Value {
				return Scalar{T: c.App("seq_at8", smt.BV(8), h, i), Typ: el}
			}}
		},
		// (*cryptobyte.Builder).AddASN1(tag, f): the continuation f is run on a
		// fresh child builder (the real code of f is executed symbolically, not
		// assumed), then the parent receives the child's contents wrapped in a
		// TLV with the given tag: *b = cbWrap(old(*b), tag, *child).  Assumed:
		// the builder itself (length prefixing) behaves as cbWrap states and does
		// not fail for contents below 4 GiB.
		"golang.org/x/crypto/cryptobyte.(*Builder).AddASN1": func(e *Exec, st *State, f *ssa.Function, args []Value, pos token.Pos) Value {
			c := e.C
			bp, ok := args[0].(*PtrV)
			if !ok {
				e.refuse("AddASN1 on a non-pointer receiver")
			}
			fv, ok := args[2].(*FuncV)
			if !ok || fv.Fn == nil {
				e.refuse("AddASN1 with a continuation that is not a function literal")
			}
			T := bp.Elem
			srt, isAbs := abstractSort(T)
			if !isAbs {
				e.refuse("cryptobyte.Builder is not modelled as an abstract type")
			}
			child := e.newLocal(T, "cryptobyte.child")
			child.zeroInit = e.zero(T)
			st.mem[child] = child.zeroInit
			cp := &PtrV{Elem: T, Alts: []PtrAlt{{Cond: c.True(), Loc: &Loc{Obj: child}}}}
			e.callFunc(st, fv.Fn, fv.Bindings, []Value{cp}, pos)
			cv := e.load(st, cp, "child builder", pos).(Scalar)
			old := e.load(st, bp, "builder", pos).(Scalar)
			tag := args[1].(Scalar).T
			e.store(st, bp, Scalar{T: c.App("spec_cbWrap", srt, old.T, c.ZExt(tag, 64), cv.T), Typ: T}, "builder", pos)
			return &TupleV{}
		},
		// (*big.Int).SetBytes(buf) stores bigOf(seq(buf)) into its receiver and
		// RETURNS THE RECEIVER ITSELF.  This is a native model because a contract
		// "r == z" cannot express it: a contract's pointer result is a fresh
		// pre-existing address, which can never equal a local object's address
		// (the assumption became contradictory and everything after
		// new(big.Int).SetBytes(..) was proved vacuously).
		"math/big.(*Int).SetBytes": func(e *Exec, st *State, f *ssa.Function, args []Value, pos token.Pos) Value {
			c := e.C
			zp, ok := args[0].(*PtrV)
			if !ok {
				e.refuse("big.Int.SetBytes on a non-pointer receiver")
			}
			srt, _ := abstractSort(zp.Elem)
			in := e.seqTerm(st, e.sliceSeq(st, args[1].(*SliceV)))
			e.store(st, zp, Scalar{T: c.App("spec_bigOf", srt, in), Typ: zp.Elem}, "big.Int receiver", pos)
			return zp
		},
		"encoding/hex.EncodeToString": func(e *Exec, st *State, f *ssa.Function, args []Value, pos token.Pos) Value {
			return Scalar{T: e.hexEncode(st, e.sliceSeq(st, args[0].(*SliceV))), Typ: types.Typ[types.String]}
		},
	}
}

func ctxNever(e *Exec, st *State, f *ssa.Function, args []Value, pos token.Pos) Value {
	c := e.C
	ng := map[string]Value{}
	for k, v := range st.ghost {
		ng[k] = v
	}
	if _, set := ng["ctxdeadline"]; !set {
		// clock values stay below 2^62 (see the ghost clock)
		ng["ctxdeadline"] = Scalar{T: c.BVC(uint64(1)<<62+1, 64), Typ: intTyp}
		st.ghost = ng
	}
	ctx := e.fresh(f.Signature.Results().At(0).Type(), "ctx").(*IfaceV)
	e.addAxioms(c.Not(e.ifaceNil(ctx)))
	return ctx
}

func leGet(w int) nativeFn {
	return func(e *Exec, st *State, f *ssa.Function, args []Value, pos token.Pos) Value {
		c := e.C
		s := args[len(args)-1].(*SliceV)
		nb := int64(w / 8)
		e.oblige(st, "bounds", fmt.Sprintf("binary.LittleEndian.Uint%d needs %d bytes", w, nb), c.BVSle(bv64(c, nb), s.Len), pos)
		rd := e.snapSlice(st, s)
		var t *smt.Term
		for k := int64(0); k < nb; k++ {
			b := rd(bv64(c, k)).(Scalar).T
			if t == nil {
				t = b
			} else {
				t = c.Concat(b, t)
			}
		}
		return Scalar{T: t, Typ: f.Signature.Results().At(0).Type()}
	}
}

func lePut(w int) nativeFn {
	return func(e *Exec, st *State, f *ssa.Function, args []Value, pos token.Pos) Value {
		c := e.C
		s := args[len(args)-2].(*SliceV)
		v := args[len(args)-1].(Scalar).T
		nb := int64(w / 8)
		e.oblige(st, "bounds", fmt.Sprintf("binary.LittleEndian.PutUint%d needs %d bytes", w, nb), c.BVSle(bv64(c, nb), s.Len), pos)
		el := s.Elem
		e.writeRange(st, s, bv64(c, 0), bv64(c, nb), func(i *smt.Term) Value {
			var res *smt.Term
			for k := int(nb) - 1; k >= 0; k-- {
				b := c.Extract(8*k+7, 8*k, v)
				if res == nil {
					res = b
				} else {
					res = c.Ite(c.Eq(i, bv64(c, int64(k))), b, res)
				}
			}
			return Scalar{T: res, Typ: el}
		}, fmt.Sprintf("binary.LittleEndian.PutUint%d", w), pos)
		return &TupleV{}
	}
}

// errorKinds lists the error types whose presence in an error chain matters
// (errors.As targets); filled from the spec database.
func (e *Exec) errHas(ident *smt.Term, kind int) *smt.Term {
	return e.C.App("err_has", smt.Bool, ident, e.C.BVC(uint64(int64(kind)), 64))
}

// newError returns a fresh non-nil error; wrapped (may be nil) is the error
// whose chain the new one extends (%w).
func (e *Exec) newError(st *State, what string, wrapped *IfaceV) Value {
	c := e.C
	return e.newErrorK(st, func(k int) *smt.Term {
		if wrapped != nil {
			return e.errChainHas(wrapped, k)
		}
		return c.False()
	})
}

// newErrorK returns a fresh non-nil error whose chain contains kind k iff kindOf(k).
func (e *Exec) newErrorK(st *State, kindOf func(k int) *smt.Term) Value {
	c := e.C
	t := c.Fresh("err", sortIface)
	tag := c.App("if_tag", refSort, t)
	e.addAxioms(c.Eq(tag, c.BVC(uint64(e.typeID(errorStringType)), 64)))
	iv := &IfaceV{Typ: errorType, Alts: []IfaceAlt{{Cond: c.True(), Tag: tag, Opaque: t}}}
	id := e.ifaceIdent(iv)
	for _, k := range e.errKinds() {
		e.addAxioms(c.Eq(e.errHas(id, k), kindOf(k)))
	}
	return iv
}

var errorType = types.Universe.Lookup("error").Type()
var errorStringType = types.NewPointer(types.NewNamed(types.NewTypeName(token.NoPos, nil, "errorString", nil), types.NewStruct(nil, nil), nil))

// errKinds returns type ids of the error kinds of interest.
func (e *Exec) errKinds() []int {
	var out []int
	for _, s := range e.DB.ErrKinds {
		if T := e.lookupType(s); T != nil {
			out = append(out, e.typeID(T))
		}
	}
	return out
}

// errChainHas: some error in the chain of v has dynamic type `kind`.
func (e *Exec) errChainHas(v *IfaceV, kind int) *smt.Term {
	c := e.C
	r := c.False()
	for _, al := range v.Alts {
		var h *smt.Term
		switch {
		case al.Typ != nil:
			h = c.BoolC(e.typeID(al.Typ) == kind)
		case al.Opaque != nil:
			h = c.Or(c.Eq(al.Tag, c.BVC(uint64(int64(kind)), 64)), e.errHas(c.App("if_ident", refSort, al.Opaque), kind))
		default:
			h = c.False()
		}
		r = c.Or(r, c.And(al.Cond, h))
	}
	return r
}

// variadicArgs extracts the elements of a []any built at the call site.
func (e *Exec) variadicArgs(st *State, v Value) ([]Value, bool) {
	s, ok := v.(*SliceV)
	if !ok {
		return nil, false
	}
	if s.Len.Op != "bv" {
		return nil, false
	}
	n := int64(s.Len.Val)
	if n > 64 {
		return nil, false
	}
	var out []Value
	for i := int64(0); i < n; i++ {
		out = append(out, e.readSlice(st, s, bv64(e.C, i)))
	}
	return out, true
}

func nativeErrorf(e *Exec, st *State, f *ssa.Function, args []Value, pos token.Pos) Value {
	// %w wraps the corresponding argument
	var wrapped *IfaceV
	if fs, ok := args[0].(Scalar); ok {
		format, known := e.litOf(fs.T)
		if known && strings.Contains(format, "%w") {
			if vs, ok := e.variadicArgs(st, args[1]); ok {
				idx := verbIndex(format, "%w")
				if idx >= 0 && idx < len(vs) {
					if iv, ok := vs[idx].(*IfaceV); ok {
						// the argument is an `any` holding an error
						wrapped = iv
					}
				}
			}
		}
	}
	return e.newError(st, "fmt.Errorf", wrapped)
}

// verbIndex returns the argument index consumed by the first occurrence of verb.
func verbIndex(format, verb string) int {
	idx := 0
	for i := 0; i < len(format); i++ {
		if format[i] != '%' {
			continue
		}
		if i+1 < len(format) && format[i+1] == '%' {
			i++
			continue
		}
		j := i + 1
		for j < len(format) && strings.ContainsRune("+-# 0123456789.", rune(format[j])) {
			j++
		}
		if j < len(format) {
			if format[i:j+1] == verb || (format[j] == verb[1] && j == i+1) {
				return idx
			}
			idx++
			i = j
		}
	}
	return -1
}

func (e *Exec) litOf(t *smt.Term) (string, bool) {
	for s, lt := range e.strLits {
		if lt == t {
			return s, true
		}
	}
	return "", false
}

func nativeSprintf(e *Exec, st *State, f *ssa.Function, args []Value, pos token.Pos) Value {
	c := e.C
	var terms []*smt.Term
	name := "sprint"
	var rest Value
	if f.Name() == "Sprintf" {
		terms = append(terms, args[0].(Scalar).T)
		name = "sprintf"
		rest = args[1]
	} else {
		rest = args[0]
	}
	ok := true
	if vs, isV := e.variadicArgs(st, rest); isV {
		for _, v := range vs {
			iv, isI := v.(*IfaceV)
			if !isI || len(iv.Alts) != 1 || iv.Alts[0].Typ == nil {
				ok = false
				break
			}
			s, isS := iv.Alts[0].Val.(Scalar)
			if !isS {
				ok = false
				break
			}
			terms = append(terms, s.T)
			name += "_" + smt.Sanitize(s.T.Sort.String())
		}
	} else {
		ok = false
	}
	var r *smt.Term
	if ok {
		r = c.App(name, sortStr, terms...)
	} else {
		r = c.Fresh("sprintf", sortStr)
	}
	e.addAxioms(c.BVSle(bv64(c, 0), c.App("str_len", smt.BV(64), r)))
	return Scalar{T: r, Typ: types.Typ[types.String]}
}

func nativeCombine(e *Exec, st *State, f *ssa.Function, args []Value, pos token.Pos) Value {
	vs, ok := e.variadicArgs(st, args[0])
	if !ok {
		e.refuse("multierr.Combine with a non-literal argument list")
	}
	var errs []*IfaceV
	for _, v := range vs {
		errs = append(errs, v.(*IfaceV))
	}
	return e.combineErrors(st, errs)
}

// combineErrors: result is nil iff all are nil; it is the single non-nil
// error when exactly one is non-nil (multierr semantics), else a fresh error
// whose chain exposes every kind present in its parts.
func (e *Exec) combineErrors(st *State, errs []*IfaceV) Value {
	c := e.C
	allNil := c.True()
	for _, v := range errs {
		allNil = c.And(allNil, e.ifaceNil(v))
	}
	var res Value = e.newErrorK(st, func(k int) *smt.Term {
		any := c.False()
		for _, v := range errs {
			any = c.Or(any, e.errChainHas(v, k))
		}
		return any
	})
	// exactly one non-nil: that error itself
	for i, v := range errs {
		only := c.Not(e.ifaceNil(v))
		for j, w := range errs {
			if j != i {
				only = c.And(only, e.ifaceNil(w))
			}
		}
		res = e.merge(only, v, res)
	}
	return e.merge(allNil, e.zero(errorType), res)
}
