package vc

import (
	"crypto/sha256"
	"crypto/sha512"
	"fmt"
	"os"
	"go/types"
	"sort"
	"strings"

	"govc/smt"

	"golang.org/x/tools/go/ssa"
)

// ReplayPlan is a concrete input built from a solver model, as Go source.
type ReplayPlan struct {
	Package   string            // package path of the function
	PkgName   string
	Imports   map[string]string // path -> alias
	ArgExprs  []string
	ArgTypes  []string
	ResKinds  []string
	Call      string // Go expression calling the function with args a0..an
	NumRes    int
	ResTypes  []string
	Predicted []string // model-predicted observable results ("nil"/"non-nil"/value)
	Notes     []string
	OK        bool
	Decls     string // declarations placed before the test function (scripted implementations of interface parameters)
}

type concretizer struct {
	e       *Exec
	s       *smt.Session
	pkg     *types.Package
	imports map[string]string
	fail    string
	strs    map[string]string
	budget  int
	bounded map[int]bool
	restart bool
	strCands []*smt.Term
	mocks    []*types.Named // interface types for which a scripted implementation is generated
	qn       int
}

func (c *concretizer) giveUp(format string, a ...interface{}) {
	if c.fail == "" {
		c.fail = fmt.Sprintf(format, a...)
	}
}

func (c *concretizer) ask(t *smt.Term) (string, bool) {
	if t.IsConst() {
		switch t.Op {
		case "true", "false":
			return t.Op, true
		case "bv":
			return fmt.Sprintf("#x%016x", t.Val), true
		}
	}
	if smt.HasQuant(t) {
		return "", false
	}
	c.budget--
	if c.budget < 0 {
		c.giveUp("model too large to extract")
		return "", false
	}
	v, err := c.s.Eval(t.SMT())
	if os.Getenv("GOVC_DEBUG") != "" {
		fmt.Fprintf(os.Stderr, "ask %s -> %q %v\n", trunc(t.String(), 120), v, err)
	}
	if err != nil {
		return "", false
	}
	return v, true
}

func (c *concretizer) askBool(t *smt.Term, def bool) bool {
	v, ok := c.ask(t)
	if !ok {
		return def
	}
	return v == "true"
}

func (c *concretizer) askBV(t *smt.Term, def uint64) uint64 {
	v, ok := c.ask(t)
	if !ok {
		return def
	}
	if x, ok := smt.ParseBV(v); ok {
		return x
	}
	return def
}

func (c *concretizer) typeStr(T types.Type) string {
	return types.TypeString(T, func(p *types.Package) string {
		if p == c.pkg {
			return ""
		}
		alias := p.Name()
		if a, ok := c.imports[p.Path()]; ok {
			return a
		}
		for _, used := range c.imports {
			if used == alias {
				alias = alias + fmt.Sprintf("%d", len(c.imports))
			}
		}
		c.imports[p.Path()] = alias
		return alias
	})
}

func exportedOrLocal(f *types.Var, pkg *types.Package) bool {
	return f.Exported() || f.Pkg() == pkg
}

// conc renders value v of type T as a Go expression under the model.
func (c *concretizer) conc(st *State, v Value, T types.Type, depth int) string {
	e := c.e
	ctx := e.C
	if c.fail != "" || c.restart {
		return "nil"
	}
	if depth > 12 {
		c.giveUp("value nested too deeply")
		return "nil"
	}
	if _, ok := abstractSort(T); ok {
		c.giveUp("value of abstract type %s cannot be constructed", c.typeStr(T))
		return "nil"
	}
	switch x := v.(type) {
	case Scalar:
		switch u := T.Underlying().(type) {
		case *types.Basic:
			if w, signed, ok := intInfo(u); ok {
				val := c.askBV(x.T, 0)
				if signed {
					sv := int64(val)
					if w < 64 && val&(1<<uint(w-1)) != 0 {
						sv = int64(val | ^((uint64(1) << uint(w)) - 1))
					}
					return fmt.Sprintf("%s(%d)", c.typeStr(T), sv)
				}
				return fmt.Sprintf("%s(0x%x)", c.typeStr(T), val)
			}
			switch u.Kind() {
			case types.Bool:
				return fmt.Sprintf("%v", c.askBool(x.T, false))
			case types.String:
				return fmt.Sprintf("%s(%q)", c.typeStr(T), c.strValue(x.T))
			}
		}
		c.giveUp("scalar of type %s cannot be constructed", c.typeStr(T))
		return "nil"
	case *PtrV:
		// when the model does not say whether the pointer is nil (its symbol
		// does not occur in the query), a non-nil value is the safer choice:
		// preconditions typically ask for it
		chosen := -1
		for i, al := range x.Alts {
			if v, ok := c.ask(al.Cond); ok && v == "true" {
				chosen = i
				break
			}
		}
		if chosen < 0 {
			for i, al := range x.Alts {
				if _, ok := c.ask(al.Cond); !ok && al.Loc != nil {
					chosen = i
					break
				}
			}
		}
		for i, al := range x.Alts {
			if i != chosen {
				continue
			}
			if al.Loc == nil {
				return "nil"
			}
			inner := e.loadLoc(st, al.Loc)
			s := c.conc(st, inner, x.Elem, depth+1)
			if _, isStruct := x.Elem.Underlying().(*types.Struct); isStruct && strings.HasPrefix(s, c.typeStr(x.Elem)+"{") {
				return "&" + s
			}
			return fmt.Sprintf("func() *%s { v := %s; return &v }()", c.typeStr(x.Elem), s)
		}
		return "nil"
	case *SliceV:
		nGuess := c.askBV(x.Len, 0)
		for _, al := range x.Alts {
			// when the model does not talk about the backing region, a slice
			// with a positive length is non-nil
			def := len(x.Alts) == 1
			if len(x.Alts) == 2 {
				def = (al.Loc == nil) == (nGuess == 0)
			}
			if len(x.Alts) == 2 && nGuess > 0 {
				// a positive length wins over an unconstrained region identity
				if al.Loc == nil {
					continue
				}
			} else if !c.askBool(al.Cond, def) {
				continue
			}
			if al.Loc == nil {
				return fmt.Sprintf("%s(nil)", c.typeStr(T))
			}
			n := c.askBV(x.Len, 0)
			cp := c.askBV(x.Cap, n)
			if (n > 3 || cp > n+64) && !x.Len.IsConst() && !c.bounded[x.Len.ID] {
				// ask for a smaller model and start over
				c.bounded[x.Len.ID] = true
				for _, b := range []uint64{3, 20, 80, 600, 70000} {
					if n <= b && cp <= n+64 {
						break
					}
					if c.s.CheckWith([]string{fmt.Sprintf("(bvule %s #x%016x)", x.Len.SMT(), b), fmt.Sprintf("(bvule %s (bvadd %s #x0000000000000040))", x.Cap.SMT(), x.Len.SMT())}) {
						c.restart = true
						return "nil"
					}
				}
			}
			if n > 70000 || cp > 1<<20 {
				c.giveUp("slice of length %d / capacity %d is too large to replay", n, cp)
				return "nil"
			}
			if cp < n {
				cp = n
			}
			arr, ok := e.loadLoc(st, al.Loc).(*ArrV)
			if !ok {
				c.giveUp("slice backing store is not an array")
				return "nil"
			}
			elemT := x.Elem
			var parts []string
			if w, _, isInt := intInfo(elemT); isInt && w == 8 {
				for i := uint64(0); i < n; i++ {
					b := c.askBV(arr.Read(ctx.BVAdd(al.Off, ctx.BVC(i, 64))).(Scalar).T, 0)
					parts = append(parts, fmt.Sprintf("0x%02x", b))
				}
			} else {
				for i := uint64(0); i < n; i++ {
					parts = append(parts, c.conc(st, arr.Read(ctx.BVAdd(al.Off, ctx.BVC(i, 64))), elemT, depth+1))
				}
			}
			lit := fmt.Sprintf("%s{%s}", c.typeStr(T), strings.Join(parts, ", "))
			if cp > n {
				return fmt.Sprintf("append(make(%s, 0, %d), %s...)", c.typeStr(T), cp, lit)
			}
			return lit
		}
		return fmt.Sprintf("%s(nil)", c.typeStr(T))
	case *StructV:
		st2, ok := T.Underlying().(*types.Struct)
		if !ok {
			c.giveUp("struct value for non-struct type")
			return "nil"
		}
		var parts []string
		for i := 0; i < st2.NumFields(); i++ {
			f := st2.Field(i)
			if !exportedOrLocal(f, c.pkg) {
				continue
			}
			if _, ok := abstractSort(f.Type()); ok {
				continue // left at its zero value
			}
			switch f.Type().Underlying().(type) {
			case *types.Map, *types.Signature, *types.Chan:
				continue
			}
			parts = append(parts, fmt.Sprintf("%s: %s", f.Name(), c.conc(st, x.Field(i), f.Type(), depth+1)))
		}
		return fmt.Sprintf("%s{%s}", c.typeStr(T), strings.Join(parts, ", "))
	case *ArrV:
		at, ok := T.Underlying().(*types.Array)
		if !ok {
			c.giveUp("array value for non-array type")
			return "nil"
		}
		if at.Len() > 70000 {
			c.giveUp("array too large")
			return "nil"
		}
		var parts []string
		for i := int64(0); i < at.Len(); i++ {
			parts = append(parts, c.conc(st, x.Read(ctx.BVC(uint64(i), 64)), at.Elem(), depth+1))
		}
		return fmt.Sprintf("%s{%s}", c.typeStr(T), strings.Join(parts, ", "))
	case *IfaceV:
		for _, al := range x.Alts {
			if !c.askBool(al.Cond, len(x.Alts) == 1) {
				continue
			}
			if al.Typ != nil {
				return c.conc(st, al.Val, al.Typ, depth+1)
			}
			tag := c.askBV(al.Tag, 0)
			if tag == 0 {
				return "nil"
			}
			dt, ok := e.typeByID[int(tag)]
			if ok {
				// the model's tag must name a type that can be held at all
				if it, isI := T.Underlying().(*types.Interface); isI && !types.Implements(dt, it) {
					ok = false
				}
			}
			if !ok || al.Opaque == nil {
				// an implementation the code knows nothing about
				if types.Identical(T, errorType) {
					return `fmt.Errorf("govc: scripted error")`
				}
				if nt, isNamed := T.(*types.Named); isNamed {
					if it, isI := nt.Underlying().(*types.Interface); isI && it.NumMethods() > 0 {
						found := false
						for _, m := range c.mocks {
							if m == nt {
								found = true
							}
						}
						if !found {
							c.mocks = append(c.mocks, nt)
						}
						return "&" + mockName(nt) + "{}"
					}
				}
				c.giveUp("interface value of a dynamic type the model does not name")
				return "nil"
			}
			pl := e.fromTerm(dt, ctx.App("if_pl_"+sortName(dt), sortOf(dt), al.Opaque), "payload")
			return c.conc(st, pl, dt, depth+1)
		}
		return "nil"
	}
	c.giveUp("value of kind %T cannot be constructed", v)
	return "nil"
}

// strValue maps an abstract string to a concrete one: a known literal when the
// model equates it with one, else a distinct placeholder per model value.
func (c *concretizer) strValue(t *smt.Term) string {
	for s, lt := range c.e.strLits {
		if lt == t {
			return s
		}
	}
	var lits []string
	for s := range c.e.strLits {
		lits = append(lits, s)
	}
	sort.Strings(lits)
	for _, s := range lits {
		if v, ok := c.ask(c.e.C.Eq(t, c.e.strLits[s])); ok && v == "true" {
			return s
		}
	}
	// strings the code computes (concatenations, hex encodings): use the real value
	for _, cand := range c.strCands {
		if cs, ok := c.computeStr(cand); ok {
			if cand == t {
				return cs
			}
			if v, ok := c.ask(c.e.C.Eq(t, cand)); ok && v == "true" {
				return cs
			}
		}
	}
	v, ok := c.ask(t)
	if !ok {
		return ""
	}
	if s, ok := c.strs[v]; ok {
		return s
	}
	s := fmt.Sprintf("govc-str-%d", len(c.strs))
	c.strs[v] = s
	return s
}

// BuildReplay constructs concrete arguments for the function under
// verification from a model of the failing obligation's script.
func (e *Exec) BuildReplay(o *Obligation, script string) *ReplayPlan {
	fn := e.Fn
	plan := &ReplayPlan{Imports: map[string]string{}}
	pkg := fn.Pkg
	if pkg == nil {
		plan.Notes = append(plan.Notes, "function has no package (closure / synthetic)")
		return plan
	}
	plan.Package = pkg.Pkg.Path()
	plan.PkgName = pkg.Pkg.Name()
	if fn.Parent() != nil {
		plan.Notes = append(plan.Notes, "closures are not replayed")
		return plan
	}
	sess, status, err := smt.StartSession(script, 60e9)
	if err != nil {
		plan.Notes = append(plan.Notes, "cannot start solver session: "+err.Error())
		return plan
	}
	defer sess.Close()
	if status != "sat" {
		plan.Notes = append(plan.Notes, "solver gave no model (status "+status+")")
		return plan
	}
	c := &concretizer{e: e, s: sess, pkg: pkg.Pkg, imports: plan.Imports, strs: map[string]string{}, budget: 200000, bounded: map[int]bool{}}
	e.mu.Lock()
	defer e.mu.Unlock()
	// prefer small inputs: bound every length / capacity term of the query
	var sizeTerms []*smt.Term
	seenT := map[int]bool{}
	var walk func(t *smt.Term)
	walk = func(t *smt.Term) {
		if seenT[t.ID] {
			return
		}
		seenT[t.ID] = true
		if t.Op == "app" && (t.Name == "sl_len" || t.Name == "sl_cap" || t.Name == "str_len" || t.Name == "map_len" || t.Name == "seq_len") && !smt.HasQuant(t) && symsDeclared(t, script) {
			sizeTerms = append(sizeTerms, t)
		}
		for _, a := range t.Args {
			walk(a)
		}
	}
	emitted := e.EmitMode(o, true)
	for _, a := range emitted {
		walk(a)
	}
	seenS := map[int]bool{}
	var walkS func(t *smt.Term)
	walkS = func(t *smt.Term) {
		if seenS[t.ID] {
			return
		}
		seenS[t.ID] = true
		if t.Op == "app" && t.Sort == sortStr && (t.Name == "str_cat" || strings.HasPrefix(t.Name, "hex_encode")) && !smt.HasQuant(t) && symsDeclared(t, script) {
			c.strCands = append(c.strCands, t)
		}
		for _, a := range t.Args {
			walkS(a)
		}
	}
	for _, a := range emitted {
		walkS(a)
	}
	// lengths and capacities of everything reachable from the parameters
	var sizes func(v Value, depth int)
	sizes = func(v Value, depth int) {
		if depth > 6 || v == nil {
			return
		}
		switch x := v.(type) {
		case *SliceV:
			for _, t := range []*smt.Term{x.Len, x.Cap} {
				if !seenT[t.ID] && !t.IsConst() && symsDeclared(t, script) {
					seenT[t.ID] = true
					sizeTerms = append(sizeTerms, t)
				}
			}
			if _, _, isInt := intInfo(x.Elem); !isInt {
				for i := uint64(0); i < 3; i++ {
					sizes(e.readSlice(e.entry, x, e.C.BVC(i, 64)), depth+1)
				}
			}
		case *PtrV:
			for _, al := range x.Alts {
				if al.Loc != nil {
					sizes(e.loadLoc(e.entry, al.Loc), depth+1)
				}
			}
		case *StructV:
			for i := 0; i < x.T.NumFields(); i++ {
				if _, ok := abstractSort(x.T.Field(i).Type()); ok {
					continue
				}
				sizes(x.Field(i), depth+1)
			}
		case *IfaceV:
			for _, al := range x.Alts {
				if al.Typ != nil {
					sizes(al.Val, depth+1)
				}
			}
		}
	}
	for _, p := range fn.Params {
		sizes(e.entry.env[p], 0)
	}
	for _, bound := range []uint64{8, 64, 600, 5000, 70000} {
		var as []string
		for _, t := range sizeTerms {
			as = append(as, fmt.Sprintf("(bvule %s #x%016x)", t.SMT(), bound))
		}
		if len(as) == 0 || sess.CheckWith(as) {
			break
		}
	}
	defer func() {
		if r := recover(); r != nil {
			plan.OK = false
			plan.Notes = append(plan.Notes, fmt.Sprintf("model extraction failed: %v", r))
		}
	}()
	c.repairHashes(emitted, script, plan)
	var names []string
	for attempt := 0; attempt < 40; attempt++ {
		c.restart = false
		c.fail = ""
		names = nil
		plan.ArgExprs, plan.ArgTypes = nil, nil
		for i, p := range fn.Params {
			v := e.entry.env[p]
			plan.ArgExprs = append(plan.ArgExprs, c.conc(e.entry, v, p.Type(), 0))
			plan.ArgTypes = append(plan.ArgTypes, c.typeStr(p.Type()))
			names = append(names, fmt.Sprintf("a%d", i))
		}
		if !c.restart {
			break
		}
	}
	if c.fail != "" {
		plan.Notes = append(plan.Notes, c.fail)
		return plan
	}
	// call expression
	if recv := fn.Signature.Recv(); recv != nil {
		plan.Call = fmt.Sprintf("%s.%s(%s)", names[0], fn.Name(), strings.Join(names[1:], ", "))
	} else {
		plan.Call = fmt.Sprintf("%s(%s)", fn.Name(), strings.Join(names, ", "))
	}
	res := fn.Signature.Results()
	plan.NumRes = res.Len()
	for i := 0; i < res.Len(); i++ {
		plan.ResTypes = append(plan.ResTypes, c.typeStr(res.At(i).Type()))
		plan.ResKinds = append(plan.ResKinds, kindOf(res.At(i).Type()))
	}
	if len(c.mocks) > 0 && c.fail == "" {
		plan.Decls = c.mockDecls(o)
		if c.fail != "" {
			plan.Notes = append(plan.Notes, c.fail)
			return plan
		}
		plan.Notes = append(plan.Notes, "interface-typed inputs are scripted implementations that replay, call by call, the results and effects the counterexample assigns to them")
	}
	// predicted observable results (post obligations carry the result values)
	for i, rv := range o.Results {
		if i >= res.Len() {
			break
		}
		pred := c.observable(rv, res.At(i).Type())
		// byte-slice results: the contents the counterexample predicts
		if sq := o.ResSeqs[i]; sq != nil && strings.HasPrefix(pred, "len=") {
			n := c.askBV(sq.Len, 0)
			if n <= 4096 {
				var hb strings.Builder
				for k := uint64(0); k < n; k++ {
					fmt.Fprintf(&hb, "%02x", c.askBV(sq.Read(c.e.C.BVC(k, 64)), 0)&0xff)
				}
				pred += " hex=" + hb.String()
			}
		}
		plan.Predicted = append(plan.Predicted, pred)
	}
	plan.OK = c.fail == ""
	if c.fail != "" {
		plan.Notes = append(plan.Notes, c.fail)
	}
	return plan
}

// observable describes a result value the way the generated test prints it.
func (c *concretizer) observable(v Value, T types.Type) string {
	e := c.e
	switch x := v.(type) {
	case *IfaceV:
		if c.askBool(e.ifaceNil(x), false) {
			return "nil"
		}
		return "non-nil"
	case *PtrV:
		if c.askBool(e.nilCond(x), false) {
			return "nil"
		}
		return "non-nil"
	case *SliceV:
		if c.askBool(e.sliceNil(x), false) {
			return "nil"
		}
		return fmt.Sprintf("len=%d", c.askBV(x.Len, 0))
	case Scalar:
		if x.T.Sort.IsBool() {
			return fmt.Sprintf("%v", c.askBool(x.T, false))
		}
		if x.T.Sort.IsBV() {
			val := c.askBV(x.T, 0)
			if _, signed, ok := intInfo(T); ok && signed {
				w := x.T.Sort.W
				sv := int64(val)
				if w < 64 && val&(1<<uint(w-1)) != 0 {
					sv = int64(val | ^((uint64(1) << uint(w)) - 1))
				}
				return fmt.Sprintf("%d", sv)
			}
			return fmt.Sprintf("%d", val)
		}
		if x.T.Sort == sortStr {
			return "string"
		}
	}
	return "?"
}

var _ = ssa.NaiveForm

func kindOf(T types.Type) string {
	switch u := T.Underlying().(type) {
	case *types.Interface:
		return "iface"
	case *types.Pointer:
		return "ptr"
	case *types.Slice:
		return "slice"
	case *types.Basic:
		if _, _, ok := intInfo(u); ok {
			return "int"
		}
		switch u.Kind() {
		case types.Bool:
			return "bool"
		case types.String:
			return "string"
		}
	}
	return "other"
}

// symsDeclared: every symbol of t is declared in the script (re-emission may
// create fresh skolems that the running solver does not know).
func symsDeclared(t *smt.Term, script string) bool {
	ok := true
	seen := map[int]bool{}
	var walk func(x *smt.Term)
	walk = func(x *smt.Term) {
		if seen[x.ID] || !ok {
			return
		}
		seen[x.ID] = true
		if x.Op == "sym" || x.Op == "app" {
			if !strings.Contains(script, "(declare-fun "+x.Name+" ") && !strings.Contains(script, "(declare-fun |"+x.Name+"| ") {
				ok = false
				return
			}
		}
		for _, a := range x.Args {
			walk(a)
		}
	}
	walk(t)
	return ok
}

// computeStr evaluates a string-valued term the way the real code would:
// literals, concatenations and hex encodings of model bytes.
func (c *concretizer) computeStr(t *smt.Term) (string, bool) {
	for s, lt := range c.e.strLits {
		if lt == t {
			return s, true
		}
	}
	if t.Op != "app" {
		return "", false
	}
	switch {
	case t.Name == "str_cat":
		a, ok1 := c.computeStr(t.Args[0])
		b, ok2 := c.computeStr(t.Args[1])
		return a + b, ok1 && ok2
	case strings.HasPrefix(t.Name, "hex_encode") && t.Name != "hex_encode":
		var sb strings.Builder
		for _, a := range t.Args {
			fmt.Fprintf(&sb, "%02x", c.askBV(a, 0))
		}
		return sb.String(), true
	}
	return "", false
}


// repairHashes makes the model agree with the real hash functions: the solver
// treats SHA-256 / SHA-384 as uninterpreted, so its model assigns arbitrary
// digests.  For every hash application in the query the argument bytes of the
// current model are fixed, the real digest is computed and asserted as the
// value of the application, and the model is re-established.  When that is
// unsatisfiable the model is left as it was (the replay will then simply not
// confirm).
func (c *concretizer) repairHashes(emitted []*smt.Term, script string, plan *ReplayPlan) {
	var apps []*smt.Term
	seen := map[int]bool{}
	var walk func(t *smt.Term)
	walk = func(t *smt.Term) {
		if seen[t.ID] {
			return
		}
		seen[t.ID] = true
		if t.Op == "app" && (t.Name == "spec_SHA256" || t.Name == "spec_SHA384") && len(t.Args) == 1 && !smt.HasQuant(t) && len(smt.FreeBVars(t)) == 0 && symsDeclared(t, script) {
			apps = append(apps, t)
		}
		for _, a := range t.Args {
			walk(a)
		}
	}
	for _, a := range emitted {
		walk(a)
	}
	if len(apps) == 0 {
		return
	}
	ctx := c.e.C
	done := 0
	for _, app := range apps {
		arg := app.Args[0]
		n := c.askBV(ctx.App("seq_len", smt.BV(64), arg), 1<<40)
		if n > 4096 {
			continue
		}
		// tie the named sequence to the data it stands for at every index (the
		// query only instantiates its defining axiom where the proof needed it)
		for _, sn := range c.e.seqNames {
			if sn.t != arg {
				continue
			}
			var link []string
			link = append(link, fmt.Sprintf("(= %s #x%016x)", ctx.App("seq_len", smt.BV(64), arg).SMT(), n))
			for i := uint64(0); i < n; i++ {
				rt := sn.s.Read(ctx.BVC(i, 64))
				if smt.HasQuant(rt) || !symsDeclared(rt, script) {
					continue
				}
				link = append(link, fmt.Sprintf("(= %s %s)", ctx.App("seq_at8", smt.BV(8), arg, ctx.BVC(i, 64)).SMT(), rt.SMT()))
			}
			c.s.CheckWith(link)
			break
		}
		buf := make([]byte, n)
		var as []string
		as = append(as, fmt.Sprintf("(= %s #x%016x)", ctx.App("seq_len", smt.BV(64), arg).SMT(), n))
		for i := uint64(0); i < n; i++ {
			at := ctx.App("seq_at8", smt.BV(8), arg, ctx.BVC(i, 64))
			buf[i] = byte(c.askBV(at, 0))
			as = append(as, fmt.Sprintf("(= %s #x%02x)", at.SMT(), buf[i]))
		}
		var dg []byte
		if app.Name == "spec_SHA256" {
			h := sha256.Sum256(buf)
			dg = h[:]
		} else {
			h := sha512.Sum384(buf)
			dg = h[:]
		}
		as = append(as, fmt.Sprintf("(= %s #x%016x)", ctx.App("seq_len", smt.BV(64), app).SMT(), uint64(len(dg))))
		for i, b := range dg {
			as = append(as, fmt.Sprintf("(= %s #x%02x)", ctx.App("seq_at8", smt.BV(8), app, ctx.BVC(uint64(i), 64)).SMT(), b))
		}
		if c.s.CheckWith(as) {
			done++
		}
	}
	if done > 0 {
		plan.Notes = append(plan.Notes, fmt.Sprintf("%d hash application(s) of the counterexample were replaced by the real digest of their model input", done))
	}
}

func mockName(nt *types.Named) string { return "govcMock_" + nt.Obj().Name() }

// mockDecls renders, for every interface type registered in c.mocks, a type
// whose methods return -- call by call -- the results the counterexample gives
// to the recorded calls of that method and write the post-state it gives to
// everything reachable from pointer arguments.
func (c *concretizer) mockDecls(o *Obligation) string {
	e := c.e
	var sb strings.Builder
	for mi := 0; mi < len(c.mocks); mi++ {
		nt := c.mocks[mi]
		it := nt.Underlying().(*types.Interface).Complete()
		name := mockName(nt)
		fmt.Fprintf(&sb, "type %s struct{ n map[string]int }\n\n", name)
		fmt.Fprintf(&sb, "func (m *%s) next(k string) int {\n\tif m.n == nil {\n\t\tm.n = map[string]int{}\n\t}\n\tv := m.n[k]\n\tm.n[k]++\n\treturn v\n}\n\n", name)
		for i := 0; i < it.NumMethods(); i++ {
			m := it.Method(i)
			sig := m.Type().(*types.Signature)
			var params, zeros []string
			for k := 0; k < sig.Params().Len(); k++ {
				pt := c.typeStr(sig.Params().At(k).Type())
				if sig.Variadic() && k == sig.Params().Len()-1 {
					pt = "..." + strings.TrimPrefix(pt, "[]")
				}
				params = append(params, fmt.Sprintf("p%d %s", k, pt))
			}
			var results []string
			for k := 0; k < sig.Results().Len(); k++ {
				rt := sig.Results().At(k).Type()
				results = append(results, c.typeStr(rt))
				zeros = append(zeros, fmt.Sprintf("*new(%s)", c.typeStr(rt)))
			}
			fmt.Fprintf(&sb, "func (m *%s) %s(%s) (%s) {\n", name, m.Name(), strings.Join(params, ", "), strings.Join(results, ", "))
			key := ifaceMethodKey(nt, m)
			spec := e.DB.Funcs[key]
			if spec != nil && spec.Records != "" {
				fmt.Fprintf(&sb, "\tswitch m.next(%q) {\n", m.Name())
				k := 0
				for _, rec := range o.Recs {
					if rec.Name != spec.Records || rec.Post == nil {
						continue
					}
					if !c.askBool(rec.Guard, false) {
						continue
					}
					fmt.Fprintf(&sb, "\tcase %d:\n", k)
					k++
					// effects on what the arguments point to
					for a := 0; a < sig.Params().Len() && a+1 < len(rec.Args); a++ {
						for _, st := range c.updates(rec.Post, fmt.Sprintf("p%d", a), rec.Args[a+1], sig.Params().At(a).Type(), 0) {
							fmt.Fprintf(&sb, "\t\t%s\n", st)
						}
					}
					var rs []string
					for r := 0; r < sig.Results().Len() && r < len(rec.Results); r++ {
						rs = append(rs, c.conc(rec.Post, rec.Results[r], sig.Results().At(r).Type(), 0))
					}
					if len(rs) == sig.Results().Len() && len(rs) > 0 {
						fmt.Fprintf(&sb, "\t\treturn %s\n", strings.Join(rs, ", "))
					} else if sig.Results().Len() == 0 {
						sb.WriteString("\t\treturn\n")
					}
				}
				sb.WriteString("\t}\n")
			}
			if len(zeros) > 0 {
				fmt.Fprintf(&sb, "\treturn %s\n", strings.Join(zeros, ", "))
			}
			sb.WriteString("}\n\n")
		}
	}
	return sb.String()
}

// updates renders statements that bring everything reachable from expr (a
// pointer, or an interface value holding a pointer) to the contents it has in
// state post.
func (c *concretizer) updates(post *State, expr string, v Value, T types.Type, depth int) []string {
	e := c.e
	if depth > 4 || c.fail != "" {
		return nil
	}
	var out []string
	switch x := v.(type) {
	case *IfaceV:
		for _, al := range x.Alts {
			if al.Typ == nil || !c.askBool(al.Cond, len(x.Alts) == 1) {
				continue
			}
			if _, isPtr := al.Typ.Underlying().(*types.Pointer); !isPtr {
				return nil
			}
			c.qn++
			q := fmt.Sprintf("q%d", c.qn)
			inner := c.updates(post, q, al.Val, al.Typ, depth+1)
			if len(inner) == 0 {
				return nil
			}
			out = append(out, fmt.Sprintf("if %s, ok := %s.(%s); ok && %s != nil {", q, expr, c.typeStr(al.Typ), q))
			for _, s := range inner {
				out = append(out, "\t"+s)
			}
			out = append(out, "}")
			return out
		}
	case *PtrV:
		pt, ok := T.Underlying().(*types.Pointer)
		if !ok {
			return nil
		}
		for _, al := range x.Alts {
			if al.Loc == nil || !c.askBool(al.Cond, len(x.Alts) == 1) {
				continue
			}
			pointee := e.loadLoc(post, al.Loc)
			if sv, isS := pointee.(*StructV); isS {
				stT, isST := pt.Elem().Underlying().(*types.Struct)
				if !isST {
					return nil
				}
				for i := 0; i < stT.NumFields(); i++ {
					f := stT.Field(i)
					if !exportedOrLocal(f, c.pkg) {
						continue
					}
					fe := fmt.Sprintf("%s.%s", expr, f.Name())
					switch f.Type().Underlying().(type) {
					case *types.Pointer, *types.Interface:
						inner := c.updates(post, fe, sv.Field(i), f.Type(), depth+1)
						if _, isP := f.Type().Underlying().(*types.Pointer); isP && len(inner) > 0 {
							out = append(out, fmt.Sprintf("if %s != nil {", fe))
							for _, s := range inner {
								out = append(out, "\t"+s)
							}
							out = append(out, "}")
						} else {
							out = append(out, inner...)
						}
					case *types.Map, *types.Signature, *types.Chan:
					default:
						if _, abs := abstractSort(f.Type()); abs {
							continue
						}
						out = append(out, fmt.Sprintf("%s = %s", fe, c.conc(post, sv.Field(i), f.Type(), depth+1)))
					}
				}
				return out
			}
			out = append(out, fmt.Sprintf("*%s = %s", expr, c.conc(post, pointee, pt.Elem(), depth+1)))
			return out
		}
	}
	return out
}
