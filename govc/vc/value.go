// Package vc is the verification-condition generator: symbolic execution of
// go/ssa function bodies against contracts, producing SMT obligations.
package vc

import (
	"regexp"
	"fmt"
	"go/types"
	"strings"

	"govc/smt"

	"golang.org/x/tools/go/ssa"
)

// Value is a symbolic Go value.
type Value interface{ isValue() }

// Scalar is a value represented by one SMT term (bool, integers, strings,
// floats and other opaque things).
type Scalar struct {
	T   *smt.Term
	Typ types.Type
}

// Untyped is an untyped integer constant of the spec language.
type Untyped struct{ V int64 }

// Loc is a memory location: an object plus a path into it.
type Loc struct {
	Obj  *Object
	Path []PathElem
}

// PathElem is a struct field selection or an array index.
type PathElem struct {
	Field int
	Idx   *smt.Term // non-nil: array element
}

// PtrAlt is one guarded alternative of a pointer value.
type PtrAlt struct {
	Cond *smt.Term
	Loc  *Loc // nil: the nil pointer
}

// PtrV is a pointer: mutually exclusive guarded alternatives.
type PtrV struct {
	Alts []PtrAlt
	Elem types.Type
}

// SliceAlt is one guarded alternative of a slice's backing store.
type SliceAlt struct {
	Cond *smt.Term
	Loc  *Loc // location of an array; nil: nil slice
	Off  *smt.Term
}

// SliceV is a slice value.
type SliceV struct {
	Alts     []SliceAlt
	Len, Cap *smt.Term
	Elem     types.Type
}

// StructV is a struct value with lazily materialised fields.
type StructV struct {
	T      *types.Struct
	F      []Value
	lazy   func(i int) Value
	Origin *smt.Term // the term this value was read from (nil once modified)
	Zero   bool      // the zero value of the type (as produced by a composite literal T{} or a fresh variable)
}

// ArrV is the contents of an array (or of a slice's backing region): a rope.
type ArrV struct {
	Elem types.Type
	N    int64 // -1: unbounded region
	Read func(i *smt.Term) Value
}

// IfaceAlt is one guarded alternative of an interface value.
type IfaceAlt struct {
	Cond   *smt.Term
	Tag    *smt.Term // Int; 0 = nil interface
	Typ    types.Type
	Val    Value     // concrete payload when Typ != nil
	Opaque *smt.Term // sort Iface, when dynamic type is unknown
}

// IfaceV is an interface value.
type IfaceV struct {
	Alts []IfaceAlt
	Typ  types.Type
}

// MapV is an opaque map.
type MapV struct {
	ID  *smt.Term
	Typ *types.Map
}

// FuncV is a function value: a known closure or an opaque function.
type FuncV struct {
	Fn       *ssa.Function
	Bindings []Value
	ID       *smt.Term
}

// TupleV is a multi-value result.
type TupleV struct{ Vs []Value }

// SeqV is a spec-level byte (or element) sequence.
type SeqV struct {
	Len  *smt.Term // BV64
	Read func(i *smt.Term) *smt.Term
	W    int // element width in bits (8 for bytes)
}

func (Scalar) isValue()   {}
func (Untyped) isValue()  {}
func (*PtrV) isValue()    {}
func (*SliceV) isValue()  {}
func (*StructV) isValue() {}
func (*ArrV) isValue()    {}
func (*IfaceV) isValue()  {}
func (*MapV) isValue()    {}
func (*FuncV) isValue()   {}
func (*TupleV) isValue()  {}
func (*SeqV) isValue()    {}

// Object is a memory object: local (allocated during the execution) or
// pre-existing (reachable from the inputs at entry).
type Object struct {
	ID    int
	Pre   bool
	Addr  *smt.Term // Int; locals: negative constants
	Typ   types.Type
	Name  string
	init  Value
	Glob  *ssa.Global
	Fresh bool // allocated by a callee with a contract (result object)
	zeroInit Value // the zero value it was allocated with (locals); still the contents while nothing has been stored
}

func (o *Object) String() string {
	if o.Pre {
		return fmt.Sprintf("pre(%s)", o.Name)
	}
	return fmt.Sprintf("local#%d(%s)", o.ID, o.Name)
}

// Field returns (materialising) field i.
func (s *StructV) Field(i int) Value {
	if s.F[i] == nil {
		s.F[i] = s.lazy(i)
	}
	return s.F[i]
}

// with returns a copy of s with field i replaced.
func (s *StructV) with(i int, v Value) *StructV {
	n := &StructV{T: s.T, F: make([]Value, len(s.F))}
	copy(n.F, s.F)
	n.F[i] = v
	old := s
	n.lazy = func(j int) Value { return old.Field(j) }
	return n
}

// sortName builds a sort name for a Go type.
var aliasWord = regexp.MustCompile(`\b(byte|rune)\b`)

func sortName(t types.Type) string {
	s := types.TypeString(t, func(p *types.Package) string { return p.Name() })
	// byte and uint8 (rune and int32) are the same type: one name, one memory
	s = aliasWord.ReplaceAllStringFunc(s, func(w string) string {
		if w == "byte" {
			return "uint8"
		}
		return "int32"
	})
	s = strings.NewReplacer("*", "P", "[]", "Sl_", "[", "A", "]", "_", " ", "", "{", "_", "}", "_", ";", "_", ",", "_", "(", "_", ")", "_", "/", "_").Replace(s)
	return smt.Sanitize(s)
}

// intWidth returns the bit width and signedness of a basic integer type.
func intInfo(t types.Type) (w int, signed bool, ok bool) {
	b, isB := t.Underlying().(*types.Basic)
	if !isB {
		return 0, false, false
	}
	switch b.Kind() {
	case types.Int8:
		return 8, true, true
	case types.Int16:
		return 16, true, true
	case types.Int32:
		return 32, true, true
	case types.Int64, types.Int:
		return 64, true, true
	case types.Uint8:
		return 8, false, true
	case types.Uint16:
		return 16, false, true
	case types.Uint32:
		return 32, false, true
	case types.Uint64, types.Uint, types.Uintptr:
		return 64, false, true
	case types.UntypedInt, types.UntypedRune:
		return 64, true, true
	}
	return 0, false, false
}

var (
	sortStr   = smt.U("Str")
	sortIface = smt.U("Iface")
	sortSlice = smt.U("SliceH")
	sortFloat = smt.U("Float")
)

// abstract named types modelled as a single term of an uninterpreted sort
var abstractTypes = map[string]string{
	"time.Time":              "Time",
	"time.Location":          "TimeLoc",
	"crypto/x509.CertPool":   "CertPool",
	"math/big.Int":           "BigInt",
	"crypto/x509/pkix.Name":  "PkixName",
	"golang.org/x/crypto/cryptobyte.Builder": "CbBuilder",
}

func abstractSort(t types.Type) (smt.Sort, bool) {
	if n, ok := t.(*types.Named); ok && n.Obj().Pkg() != nil {
		if s, ok := abstractTypes[n.Obj().Pkg().Path()+"."+n.Obj().Name()]; ok {
			return smt.U(s), true
		}
	}
	return smt.Sort{}, false
}

// sortOf maps a Go type to the SMT sort of its term-level representation.
func sortOf(t types.Type) smt.Sort {
	if s, ok := abstractSort(t); ok {
		return s
	}
	switch u := t.Underlying().(type) {
	case *types.Basic:
		if w, _, ok := intInfo(u); ok {
			return smt.BV(w)
		}
		switch u.Kind() {
		case types.Bool, types.UntypedBool:
			return smt.Bool
		case types.String, types.UntypedString:
			return sortStr
		case types.Float32, types.Float64, types.UntypedFloat:
			return sortFloat
		case types.UnsafePointer:
			return refSort
		case types.UntypedNil:
			return refSort
		}
	case *types.Pointer, *types.Map, *types.Chan, *types.Signature:
		return refSort
	case *types.Slice:
		return sortSlice
	case *types.Interface:
		return sortIface
	case *types.Struct:
		return smt.U("S_" + sortName(t))
	case *types.Array:
		return smt.U("A_" + sortName(t))
	case *types.Tuple:
		return smt.U("T_" + sortName(t))
	}
	panic(fmt.Sprintf("sortOf: unsupported type %v", t))
}

func isInterface(t types.Type) bool {
	_, ok := t.Underlying().(*types.Interface)
	return ok
}

func derefType(t types.Type) types.Type {
	if p, ok := t.Underlying().(*types.Pointer); ok {
		return p.Elem()
	}
	panic(fmt.Sprintf("derefType: %v is not a pointer", t))
}

// refSort is the sort of addresses, region identifiers and type tags:
// 64-bit vectors (0 = nil; local objects get negative constants).
var refSort = smt.BV(64)
