package vc

import (
	"time"
	"fmt"
	"sync"
	"go/token"
	"go/types"
	"sort"
	"strings"

	"govc/smt"

	"golang.org/x/tools/go/ssa"
)

// facts is a persistent DAG of assumptions.
type facts struct {
	id    int
	f     *smt.Term
	prev  *facts
	prev2 *facts
}

var factCounter int

func (f *facts) add(t *smt.Term) *facts {
	if t.IsTrue() {
		return f
	}
	factCounter++
	return &facts{id: factCounter, f: t, prev: f}
}

func joinFacts(a, b *facts) *facts {
	if a == b || b == nil {
		return a
	}
	if a == nil {
		return b
	}
	factCounter++
	return &facts{id: factCounter, prev: a, prev2: b}
}

func (f *facts) collect() []*smt.Term {
	seen := map[int]bool{}
	var out []*smt.Term
	var stack []*facts
	stack = append(stack, f)
	for len(stack) > 0 {
		x := stack[len(stack)-1]
		stack = stack[:len(stack)-1]
		for x != nil && !seen[x.id] {
			seen[x.id] = true
			if x.f != nil {
				out = append(out, x.f)
			}
			if x.prev2 != nil {
				stack = append(stack, x.prev2)
			}
			x = x.prev
		}
	}
	return out
}

// CallRec is a ghost record of a call through an interface (or of a traced
// external function).
type CallRec struct {
	Name    string
	Guard   *smt.Term
	Args    []Value
	Results []Value
	Snap    map[string]Value // named snapshots taken by the contract
	Pre     *State           // state just before the call
	Post    *State           // state just after the call (effects and ensures applied)
	Vars    map[string]specVar
}

// State is the symbolic state at a program point.
type State struct {
	guard *smt.Term
	facts *facts
	env   map[ssa.Value]Value
	mem   map[*Object]Value
	recs  []*CallRec
	ghost map[string]Value
}

func (s *State) clone() *State {
	n := &State{guard: s.guard, facts: s.facts, recs: s.recs}
	n.env = make(map[ssa.Value]Value, len(s.env)+8)
	for k, v := range s.env {
		n.env[k] = v
	}
	n.mem = make(map[*Object]Value, len(s.mem)+8)
	for k, v := range s.mem {
		n.mem[k] = v
	}
	if s.ghost != nil {
		n.ghost = make(map[string]Value, len(s.ghost))
		for k, v := range s.ghost {
			n.ghost[k] = v
		}
	}
	return n
}

// Obligation is one proof obligation.
type Obligation struct {
	Soft   bool   // a cover whose failure is a note, not a machinery fault
	Func   string // function under verification
	Kind   string // bounds, nil, conv, assert-type, div, panic, pre, post, inv-init, inv-keep, frame, unwind, cover, variant
	Label  string
	Guard  *smt.Term
	Goal   *smt.Term
	Facts  *facts
	Pos    token.Position
	Cover  bool // must be satisfiable (vacuity guard)
	Extra  []*smt.Term
	Cands  []*smt.Term // candidate index terms for instantiation
	InFunc string      // function whose body produced the obligation (inlined callee)
	InKey  string      // contract key of that function
	ResSeqs map[int]*SeqV // post obligations: contents of byte-slice results at the return (for replays)
	Results []Value    // result values at the return site (post obligations)
	Recs    []*CallRec // ghost trace at the point of the obligation (replay of scripted interfaces)
}

func (o *Obligation) Name() string {
	return o.Func + "/" + o.Kind + "/" + o.Label
}

// Problem is an engine-level refusal (unsupported construct).
type Problem struct {
	Func string
	Msg  string
	Pos  token.Position
}

// Exec holds everything for verifying one function.
type Exec struct {
	C       *smt.Ctx
	Prog    *ssa.Program
	DB      *SpecDB
	Fn      *ssa.Function
	Spec    *FuncSpec
	Axioms  []*smt.Term
	Obls    []*Obligation
	Probs   []Problem
	objs    int
	pre     map[string]*Object
	globals map[*ssa.Global]*Object
	typeIDs map[string]int
	typeByID map[int]types.Type
	strLits map[string]*smt.Term
	depth   int
	dry     int // >0: discovery mode, no obligations recorded
	writes  map[string]*Loc
	frames  []*frame
	cands   []*smt.Term
	entry   *State
	Externs map[string]bool // external functions whose assumed contracts were used
	Inlined map[string]bool
	Callees map[string]bool // contracted callees used
	fnName  string
	traceNames map[string]bool
	axVars  map[string]*smt.Term // canonical bound variables of closed axioms
	axDone  map[int]bool
	localNames map[string]int
	seqNames   []seqName
	extMemo    map[[2]int][2]*smt.Term
	quantNames map[int]*smt.Term
	macroEqs   []macroEq
	FrameSites int // write sites examined by the frame check
	RevealAll  bool // unfold every opaque predicate (used to obtain faithful counterexamples)
	// ReplayInline > 0: contracted repo callees are inlined to this depth
	// (counterexample search for replays only, never for proofs)
	ReplayInline   int
	ReplayDeadline time.Time
	replayInlined  int
	SmallLen   uint64 // when non-zero: every pre-existing slice has at most this capacity (replay search)
	curRecBase map[string]int
	funcsMemo  map[*ssa.Function]bool
	mu         sync.Mutex
	seqProbe   *smt.Term
	seqByKey   map[string]*smt.Term
	preWrites  int
	assigns    []*Loc
	assignsReach []Value // everything reachable from these values may be written
	assignsAny bool
	noAutoInv  bool
	staleMemo  map[string]string
	sliceSeqDone map[int]bool
	canonVars  map[string]*smt.Term
	seqFuncByKey map[string]string
	staleOwn   bool // the contract of the function under verification was ignored as stale
	extraReveal map[string]bool // predicates revealed by ignored (stale) contracts of inlined callees
	fixedLen   map[int]*smt.Term // fixed length of sequence-valued spec terms
	AutoInvs   int      // derived search-loop invariants used
	LoopsTotal, LoopsTerminating int // loops executed symbolically / of those with a termination argument
	Notes      []string // non-fatal remarks (dropped invariants, ...)
}

type frame struct {
	fn     *ssa.Function
	defers []*ssa.Defer
	deferSt []deferred
}

type deferred struct {
	call *ssa.CallCommon
	args []Value
	fn   Value
}

func (e *Exec) note(format string, a ...interface{}) {
	m := fmt.Sprintf(format, a...)
	for _, n := range e.Notes {
		if n == m {
			return
		}
	}
	e.Notes = append(e.Notes, m)
}

func (e *Exec) problem(pos token.Pos, format string, a ...interface{}) {
	p := Problem{Func: e.fnName, Msg: fmt.Sprintf(format, a...)}
	if pos.IsValid() {
		p.Pos = e.Prog.Fset.Position(pos)
	}
	for _, q := range e.Probs {
		if q.Msg == p.Msg {
			return
		}
	}
	e.Probs = append(e.Probs, p)
}

type refusal struct{ msg string }

func (e *Exec) refuse(format string, a ...interface{}) {
	panic(refusal{fmt.Sprintf(format, a...)})
}

// ---- type ids ----

func (e *Exec) typeID(t types.Type) int {
	k := types.TypeString(t, nil)
	if id, ok := e.typeIDs[k]; ok {
		return id
	}
	id := len(e.typeIDs) + 1
	e.typeIDs[k] = id
	e.typeByID[id] = t
	return id
}

func (e *Exec) strLit(s string) *smt.Term {
	if t, ok := e.strLits[s]; ok {
		return t
	}
	name := fmt.Sprintf("s%d_%s", len(e.strLits), smt.Sanitize(trunc(s, 24)))
	t := e.C.Lit(name, sortStr)
	e.strLits[s] = t
	// length axiom
	e.addAxioms(e.C.Eq(e.C.App("str_len", smt.BV(64), t), e.C.BVC(uint64(len(s)), 64)))
	return t
}

func trunc(s string, n int) string {
	if len(s) > n {
		return s[:n]
	}
	return s
}

// ---- objects ----

func (e *Exec) newLocal(t types.Type, name string) *Object {
	e.objs++
	return &Object{ID: e.objs, Addr: e.C.BVC(uint64(int64(-e.objs)), 64), Typ: t, Name: name}
}

// preObj returns the pre-existing object at address term addr with type t.
func (e *Exec) preObj(addr *smt.Term, t types.Type, name string) *Object {
	k := fmt.Sprintf("%d|%s", addr.ID, types.TypeString(t, nil))
	if o, ok := e.pre[k]; ok {
		return o
	}
	e.objs++
	o := &Object{ID: e.objs, Pre: true, Addr: addr, Typ: t, Name: name}
	e.pre[k] = o
	return o
}

// regionType is the pseudo-type of an unbounded backing region.
type regionType struct {
	types.Type
	elem types.Type
}

func mkRegionType(elem types.Type) types.Type { return types.NewArray(elem, -1) }

func isRegion(t types.Type) (types.Type, bool) {
	if a, ok := t.(*types.Array); ok && a.Len() < 0 {
		return a.Elem(), true
	}
	return nil, false
}

// initial contents of a pre-existing object.
func (e *Exec) initOf(o *Object) Value {
	if o.init != nil {
		return o.init
	}
	if !o.Pre {
		o.init = e.zero(o.Typ)
		return o.init
	}
	if elem, ok := isRegion(o.Typ); ok {
		reg := o.Addr
		nm := "mem_" + sortName(elem)
		o.init = &ArrV{Elem: elem, N: -1, Read: func(i *smt.Term) Value {
			return e.fromTerm(elem, e.C.App(nm, sortOf(elem), reg, i), o.Name+"[]")
		}}
		return o.init
	}
	if o.Glob != nil {
		o.init = e.fromTerm(o.Typ, e.C.Sym("gv_"+smt.Sanitize(o.Glob.Pkg.Pkg.Name()+"."+o.Glob.Name()), sortOf(o.Typ)), o.Name)
		if isInterface(o.Typ) && strings.HasPrefix(o.Glob.Name(), "Err") {
			// package-level Err* variables are initialised with errors.New and never reassigned
			iv := o.init.(*IfaceV)
			e.addAxioms(e.C.Neq(iv.Alts[0].Tag, e.C.BVC(uint64(0), 64)))
		}
		return o.init
	}
	o.init = e.fromTerm(o.Typ, e.C.App("deref_"+sortName(o.Typ), sortOf(o.Typ), o.Addr), "*"+o.Name)
	return o.init
}

func (e *Exec) contents(st *State, o *Object) Value {
	if v, ok := st.mem[o]; ok {
		return v
	}
	return e.initOf(o)
}

// maxLen bounds the length of every pre-existing slice and string (assumption:
// no byte string of 2 GiB or more is handed to the library).
const maxLen = 1<<31 - 1

// ---- symbolic values from terms ----

// fromTerm interprets term t (of sort sortOf(T)) as a value of type T.
func (e *Exec) fromTerm(T types.Type, t *smt.Term, name string) Value {
	c := e.C
	if _, ok := abstractSort(T); ok {
		return Scalar{T: t, Typ: T}
	}
	switch u := T.Underlying().(type) {
	case *types.Basic:
		return Scalar{T: t, Typ: T}
	case *types.Pointer:
		isnil := c.Eq(t, c.BVC(uint64(0), 64))
		e.addAxioms(c.BVSle(c.BVC(uint64(0), 64), t))
		return &PtrV{Elem: u.Elem(), Alts: []PtrAlt{
			{Cond: isnil},
			{Cond: c.Not(isnil), Loc: &Loc{Obj: e.preObj(t, u.Elem(), name)}},
		}}
	case *types.Slice:
		reg := c.App("sl_reg", refSort, t)
		ln := c.App("sl_len", smt.BV(64), t)
		cp := c.App("sl_cap", smt.BV(64), t)
		isnil := c.Eq(reg, c.BVC(uint64(0), 64))
		z := c.BVC(0, 64)
		e.addAxioms(
			c.BVSle(c.BVC(uint64(0), 64), reg),
			c.BVSle(z, ln), c.BVSle(ln, cp),
			c.BVSle(cp, c.BVC(e.lenBound(), 64)),
			c.Implies(isnil, c.Eq(cp, z)))
		return &SliceV{Elem: u.Elem(), Len: ln, Cap: cp, Alts: []SliceAlt{
			{Cond: isnil},
			{Cond: c.Not(isnil), Loc: &Loc{Obj: e.preObj(reg, mkRegionType(u.Elem()), name)}, Off: z},
		}}
	case *types.Struct:
		sn := sortName(T)
		s := &StructV{T: u, F: make([]Value, u.NumFields()), Origin: t}
		s.lazy = func(i int) Value {
			ft := u.Field(i).Type()
			fname := u.Field(i).Name()
			if fname == "_" {
				fname = fmt.Sprintf("_blank%d", i)
			}
			return e.fromTerm(ft, c.App(fmt.Sprintf("fld_%s_%s", sn, fname), sortOf(ft), t), name+"."+u.Field(i).Name())
		}
		return s
	case *types.Array:
		an := sortName(T)
		el := u.Elem()
		return &ArrV{Elem: el, N: u.Len(), Read: func(i *smt.Term) Value {
			return e.fromTerm(el, c.App("arr_at_"+an, sortOf(el), t, i), name+"[]")
		}}
	case *types.Interface:
		tag := c.App("if_tag", refSort, t)
		e.addAxioms(c.BVSle(c.BVC(uint64(0), 64), tag))
		return &IfaceV{Typ: T, Alts: []IfaceAlt{{Cond: c.True(), Tag: tag, Opaque: t}}}
	case *types.Map:
		return &MapV{ID: t, Typ: u}
	case *types.Signature:
		return &FuncV{ID: t}
	case *types.Chan:
		return Scalar{T: t, Typ: T}
	case *types.Tuple:
		tv := &TupleV{}
		for i := 0; i < u.Len(); i++ {
			ft := u.At(i).Type()
			tv.Vs = append(tv.Vs, e.fromTerm(ft, c.App(fmt.Sprintf("tup_%s_%d", sortName(T), i), sortOf(ft), t), fmt.Sprintf("%s.%d", name, i)))
		}
		return tv
	}
	panic(fmt.Sprintf("fromTerm: unsupported type %v", T))
}

// fresh returns a fresh symbolic value of type T.
func (e *Exec) fresh(T types.Type, name string) Value {
	if tup, ok := T.(*types.Tuple); ok {
		tv := &TupleV{}
		for i := 0; i < tup.Len(); i++ {
			tv.Vs = append(tv.Vs, e.fresh(tup.At(i).Type(), fmt.Sprintf("%s_%d", name, i)))
		}
		return tv
	}
	return e.fromTerm(T, e.C.Fresh(name, sortOf(T)), name)
}

// zero returns the zero value of T.
func (e *Exec) zero(T types.Type) Value {
	c := e.C
	if s, ok := abstractSort(T); ok {
		return Scalar{T: c.Sym("spec_zero_"+s.Name, s), Typ: T}
	}
	switch u := T.Underlying().(type) {
	case *types.Basic:
		if w, _, ok := intInfo(u); ok {
			return Scalar{T: c.BVC(0, w), Typ: T}
		}
		switch u.Kind() {
		case types.Bool, types.UntypedBool:
			return Scalar{T: c.False(), Typ: T}
		case types.String, types.UntypedString:
			return Scalar{T: e.strLit(""), Typ: T}
		case types.Float32, types.Float64, types.UntypedFloat:
			return Scalar{T: c.Lit("f0", sortFloat), Typ: T}
		case types.UnsafePointer, types.UntypedNil:
			return Scalar{T: c.BVC(uint64(0), 64), Typ: T}
		}
	case *types.Pointer:
		return &PtrV{Elem: u.Elem(), Alts: []PtrAlt{{Cond: c.True()}}}
	case *types.Slice:
		return &SliceV{Elem: u.Elem(), Len: c.BVC(0, 64), Cap: c.BVC(0, 64), Alts: []SliceAlt{{Cond: c.True()}}}
	case *types.Struct:
		s := &StructV{T: u, F: make([]Value, u.NumFields()), Zero: true}
		s.lazy = func(i int) Value { return e.zero(u.Field(i).Type()) }
		return s
	case *types.Array:
		el := u.Elem()
		var zv Value
		return &ArrV{Elem: el, N: u.Len(), Read: func(i *smt.Term) Value {
			if zv == nil {
				zv = e.zero(el)
			}
			return zv
		}}
	case *types.Interface:
		return &IfaceV{Typ: T, Alts: []IfaceAlt{{Cond: c.True(), Tag: c.BVC(uint64(0), 64)}}}
	case *types.Map:
		return &MapV{ID: c.BVC(uint64(0), 64), Typ: u}
	case *types.Signature:
		return &FuncV{ID: c.BVC(uint64(0), 64)}
	case *types.Chan:
		return Scalar{T: c.BVC(uint64(0), 64), Typ: T}
	case *types.Tuple:
		tv := &TupleV{}
		for i := 0; i < u.Len(); i++ {
			tv.Vs = append(tv.Vs, e.zero(u.At(i).Type()))
		}
		return tv
	}
	panic(fmt.Sprintf("zero: unsupported type %v", T))
}

// ---- merging ----

func sameValue(a, b Value) bool {
	if sa, ok := a.(Scalar); ok {
		if sb, ok := b.(Scalar); ok {
			return sa.T == sb.T
		}
		return false
	}
	return a == b
}

// merge returns ite(cond, a, b) on values.
func (e *Exec) merge(cond *smt.Term, a, b Value) Value {
	c := e.C
	if cond.IsTrue() {
		return a
	}
	if cond.IsFalse() {
		return b
	}
	if a == nil {
		return b
	}
	if b == nil {
		return a
	}
	if sameValue(a, b) {
		return a
	}
	ncond := c.Not(cond)
	switch x := a.(type) {
	case Scalar:
		y, ok := b.(Scalar)
		if !ok {
			break
		}
		return Scalar{T: c.Ite(cond, x.T, y.T), Typ: x.Typ}
	case *PtrV:
		y, ok := b.(*PtrV)
		if !ok {
			break
		}
		r := &PtrV{Elem: x.Elem}
		r.Alts = appendPtrAlts(c, nil, cond, x.Alts)
		r.Alts = appendPtrAlts(c, r.Alts, ncond, y.Alts)
		return r
	case *SliceV:
		y, ok := b.(*SliceV)
		if !ok {
			break
		}
		r := &SliceV{Elem: x.Elem, Len: c.Ite(cond, x.Len, y.Len), Cap: c.Ite(cond, x.Cap, y.Cap)}
		for _, al := range x.Alts {
			r.addAlt(c, c.And(cond, al.Cond), al.Loc, al.Off)
		}
		for _, al := range y.Alts {
			r.addAlt(c, c.And(ncond, al.Cond), al.Loc, al.Off)
		}
		return r
	case *StructV:
		y, ok := b.(*StructV)
		if !ok {
			break
		}
		s := &StructV{T: x.T, F: make([]Value, len(x.F))}
		s.lazy = func(i int) Value { return e.merge(cond, x.Field(i), y.Field(i)) }
		return s
	case *ArrV:
		y, ok := b.(*ArrV)
		if !ok {
			break
		}
		return &ArrV{Elem: x.Elem, N: x.N, Read: func(i *smt.Term) Value { return e.merge(cond, x.Read(i), y.Read(i)) }}
	case *IfaceV:
		y, ok := b.(*IfaceV)
		if !ok {
			break
		}
		r := &IfaceV{Typ: x.Typ}
		for _, al := range x.Alts {
			g := c.And(cond, al.Cond)
			if !g.IsFalse() {
				al.Cond = g
				r.Alts = append(r.Alts, al)
			}
		}
		for _, al := range y.Alts {
			g := c.And(ncond, al.Cond)
			if !g.IsFalse() {
				al.Cond = g
				r.Alts = append(r.Alts, al)
			}
		}
		r.compact(e)
		return r
	case *MapV:
		y, ok := b.(*MapV)
		if !ok {
			break
		}
		return &MapV{ID: c.Ite(cond, x.ID, y.ID), Typ: x.Typ}
	case *FuncV:
		y, ok := b.(*FuncV)
		if !ok {
			break
		}
		if x.Fn != nil && x.Fn == y.Fn && len(x.Bindings) == len(y.Bindings) {
			r := &FuncV{Fn: x.Fn}
			for i := range x.Bindings {
				r.Bindings = append(r.Bindings, e.merge(cond, x.Bindings[i], y.Bindings[i]))
			}
			return r
		}
		if x.Fn == nil && y.Fn == nil {
			return &FuncV{ID: c.Ite(cond, x.ID, y.ID)}
		}
		e.refuse("merge of distinct function values")
	case *TupleV:
		y, ok := b.(*TupleV)
		if !ok {
			break
		}
		r := &TupleV{}
		for i := range x.Vs {
			r.Vs = append(r.Vs, e.merge(cond, x.Vs[i], y.Vs[i]))
		}
		return r
	case *SeqV:
		y, ok := b.(*SeqV)
		if !ok {
			break
		}
		return &SeqV{W: x.W, Len: c.Ite(cond, x.Len, y.Len), Read: func(i *smt.Term) *smt.Term { return c.Ite(cond, x.Read(i), y.Read(i)) }}
	}
	e.refuse("merge of incompatible values %T / %T", a, b)
	return nil
}

func sameLoc(a, b *Loc) bool {
	if a == nil || b == nil {
		return a == b
	}
	if a.Obj != b.Obj || len(a.Path) != len(b.Path) {
		return false
	}
	for i := range a.Path {
		if a.Path[i].Field != b.Path[i].Field || a.Path[i].Idx != b.Path[i].Idx {
			return false
		}
	}
	return true
}

func appendPtrAlts(c *smt.Ctx, dst []PtrAlt, g *smt.Term, alts []PtrAlt) []PtrAlt {
outer:
	for _, al := range alts {
		cond := c.And(g, al.Cond)
		if cond.IsFalse() {
			continue
		}
		for i := range dst {
			if sameLoc(dst[i].Loc, al.Loc) {
				dst[i].Cond = c.Or(dst[i].Cond, cond)
				continue outer
			}
		}
		dst = append(dst, PtrAlt{Cond: cond, Loc: al.Loc})
	}
	return dst
}

func (s *SliceV) addAlt(c *smt.Ctx, cond *smt.Term, loc *Loc, off *smt.Term) {
	if cond.IsFalse() {
		return
	}
	for i := range s.Alts {
		if sameLoc(s.Alts[i].Loc, loc) && s.Alts[i].Off == off {
			s.Alts[i].Cond = c.Or(s.Alts[i].Cond, cond)
			return
		}
	}
	s.Alts = append(s.Alts, SliceAlt{Cond: cond, Loc: loc, Off: off})
}

// compact merges nil alternatives of an interface value.
func (v *IfaceV) compact(e *Exec) {
	c := e.C
	var out []IfaceAlt
	var nilCond *smt.Term
	for _, al := range v.Alts {
		if al.Typ == nil && al.Opaque == nil && al.Tag.Op == "bv" && al.Tag.Val == 0 {
			if nilCond == nil {
				nilCond = al.Cond
			} else {
				nilCond = c.Or(nilCond, al.Cond)
			}
			continue
		}
		out = append(out, al)
	}
	if nilCond != nil {
		out = append(out, IfaceAlt{Cond: nilCond, Tag: c.BVC(uint64(0), 64)})
	}
	v.Alts = out
}

// ---- memory access ----

func (e *Exec) getPath(v Value, path []PathElem) Value {
	for _, p := range path {
		if p.Idx != nil {
			a, ok := v.(*ArrV)
			if !ok {
				e.refuse("index into non-array value %T", v)
			}
			v = a.Read(p.Idx)
		} else {
			if sc, ok := v.(Scalar); ok && sc.Typ != nil {
				v = e.projectField(sc, p.Field)
				continue
			}
			s, ok := v.(*StructV)
			if !ok {
				e.refuse("field of non-struct value %T", v)
			}
			v = s.Field(p.Field)
		}
	}
	return v
}

// projectField reads field i of a value of an abstract struct type through
// an uninterpreted projection.
func (e *Exec) projectField(sc Scalar, i int) Value {
	st, ok := sc.Typ.Underlying().(*types.Struct)
	if !ok {
		e.refuse("field of non-struct abstract value")
	}
	ft := st.Field(i).Type()
	return e.fromTerm(ft, e.C.App(fmt.Sprintf("proj_%s_%s", sc.T.Sort.Name, st.Field(i).Name()), sortOf(ft), sc.T), st.Field(i).Name())
}

func (e *Exec) setPath(v Value, path []PathElem, nv Value) Value {
	if len(path) == 0 {
		return nv
	}
	p := path[0]
	if p.Idx != nil {
		a, ok := v.(*ArrV)
		if !ok {
			e.refuse("index into non-array value %T", v)
		}
		idx := p.Idx
		inner := e.setPath(a.Read(idx), path[1:], nv)
		old := a
		return &ArrV{Elem: a.Elem, N: a.N, Read: func(i *smt.Term) Value {
			return e.merge(e.C.Eq(i, idx), inner, old.Read(i))
		}}
	}
	s, ok := v.(*StructV)
	if !ok {
		e.refuse("field of non-struct value %T", v)
	}
	return s.with(p.Field, e.setPath(s.Field(p.Field), path[1:], nv))
}

func (e *Exec) loadLoc(st *State, l *Loc) Value {
	return e.getPath(e.contents(st, l.Obj), l.Path)
}

func locKey(l *Loc) string {
	var sb strings.Builder
	fmt.Fprintf(&sb, "%d", l.Obj.ID)
	for _, p := range l.Path {
		if p.Idx != nil {
			sb.WriteString("[]")
			break
		}
		fmt.Fprintf(&sb, ".%d", p.Field)
	}
	return sb.String()
}

func (e *Exec) storeLoc(st *State, l *Loc, v Value) {
	if e.writes != nil {
		e.writes[locKey(l)] = l
	}
	if l.Obj.Pre {
		e.preWrites++
	}
	st.mem[l.Obj] = e.setPath(e.contents(st, l.Obj), l.Path, v)
}

// load dereferences a pointer value (nil obligation included).
func (e *Exec) load(st *State, p *PtrV, what string, pos token.Pos) Value {
	e.nilCheck(st, p, what, pos)
	var res Value
	for i := len(p.Alts) - 1; i >= 0; i-- {
		al := p.Alts[i]
		if al.Loc == nil {
			continue
		}
		v := e.loadLoc(st, al.Loc)
		if res == nil {
			res = v
		} else {
			res = e.merge(al.Cond, v, res)
		}
	}
	if res == nil {
		// definitely nil: the obligation above fails; continue with a fresh value
		return e.fresh(p.Elem, "deadload")
	}
	return res
}

func (e *Exec) nilCond(p *PtrV) *smt.Term {
	r := e.C.False()
	for _, al := range p.Alts {
		if al.Loc == nil {
			r = e.C.Or(r, al.Cond)
		}
	}
	return r
}

func (e *Exec) nilCheck(st *State, p *PtrV, what string, pos token.Pos) {
	nc := e.nilCond(p)
	if nc.IsFalse() {
		return
	}
	e.oblige(st, "nil", what, e.C.Not(nc), pos)
}

func (e *Exec) store(st *State, p *PtrV, v Value, what string, pos token.Pos) {
	e.nilCheck(st, p, what, pos)
	n := 0
	for _, al := range p.Alts {
		if al.Loc != nil {
			n++
		}
	}
	for _, al := range p.Alts {
		if al.Loc == nil {
			continue
		}
		e.frameCheck(st, al.Loc, al.Cond, what, pos)
		if n == 1 {
			e.storeLoc(st, al.Loc, v)
		} else {
			e.storeLoc(st, al.Loc, e.merge(al.Cond, v, e.loadLoc(st, al.Loc)))
		}
	}
}

// oblige records an obligation and then assumes the goal.
func (e *Exec) oblige(st *State, kind, label string, goal *smt.Term, pos token.Pos) {
	if goal.IsTrue() {
		return
	}
	goal = e.dropKnown(st.guard, goal)
	if goal.IsTrue() {
		return
	}
	if e.dry == 0 {
		o := &Obligation{Func: e.fnName, Kind: kind, Label: label, Guard: st.guard, Goal: goal, Facts: st.facts, InFunc: e.curFn().String(), InKey: funcKey(e.curFn()), Recs: st.recs}
		if pos.IsValid() {
			o.Pos = e.Prog.Fset.Position(pos)
		}
		o.Cands = append(o.Cands, e.cands...)
		e.Obls = append(e.Obls, o)
	}
	st.facts = st.facts.add(e.C.Implies(st.guard, goal))
}

func (e *Exec) assume(st *State, f *smt.Term) {
	st.facts = st.facts.add(e.C.Implies(st.guard, f))
}

func (e *Exec) curFn() *ssa.Function {
	if len(e.frames) == 0 {
		return e.Fn
	}
	return e.frames[len(e.frames)-1].fn
}

// ---- address terms ----

func (e *Exec) locAddr(l *Loc) *smt.Term {
	if l == nil {
		return e.C.BVC(uint64(0), 64)
	}
	if len(l.Path) == 0 {
		return l.Obj.Addr
	}
	t := l.Obj.Addr
	for _, p := range l.Path {
		if p.Idx != nil {
			t = e.C.App("elemaddr", refSort, t, p.Idx)
		} else {
			t = e.C.App("fieldaddr", refSort, t, e.C.BVC(uint64(int64(p.Field)), 64))
		}
	}
	return t
}

func (e *Exec) ptrAddr(p *PtrV) *smt.Term {
	var res *smt.Term
	for i := len(p.Alts) - 1; i >= 0; i-- {
		a := e.locAddr(p.Alts[i].Loc)
		if res == nil {
			res = a
		} else {
			res = e.C.Ite(p.Alts[i].Cond, a, res)
		}
	}
	if res == nil {
		return e.C.BVC(uint64(0), 64)
	}
	return res
}

func (e *Exec) sliceNil(s *SliceV) *smt.Term {
	r := e.C.False()
	for _, al := range s.Alts {
		if al.Loc == nil {
			r = e.C.Or(r, al.Cond)
		}
	}
	return r
}

// readSlice reads element i (relative to the slice start).
func (e *Exec) readSlice(st *State, s *SliceV, i *smt.Term) Value {
	var res Value
	for k := len(s.Alts) - 1; k >= 0; k-- {
		al := s.Alts[k]
		if al.Loc == nil {
			continue
		}
		arr, ok := e.loadLoc(st, al.Loc).(*ArrV)
		if !ok {
			e.refuse("slice backing store is not an array")
		}
		v := arr.Read(e.C.BVAdd(al.Off, i))
		if res == nil {
			res = v
		} else {
			res = e.merge(al.Cond, v, res)
		}
	}
	if res == nil {
		return e.fresh(s.Elem, "nilslice_elem")
	}
	return res
}

func sortedKeys(m map[string]*Loc) []string {
	var ks []string
	for k := range m {
		ks = append(ks, k)
	}
	sort.Strings(ks)
	return ks
}

// dropKnown removes conjuncts of goal that are literally conjuncts of guard.
func (e *Exec) dropKnown(guard, goal *smt.Term) *smt.Term {
	known := map[int]bool{}
	if guard.Op == "and" {
		for _, a := range guard.Args {
			known[a.ID] = true
		}
	} else {
		known[guard.ID] = true
	}
	if known[goal.ID] {
		return e.C.True()
	}
	if goal.Op == "and" {
		var rest []*smt.Term
		for _, a := range goal.Args {
			if !known[a.ID] {
				rest = append(rest, a)
			}
		}
		return e.C.And(rest...)
	}
	return goal
}

// nameQuant replaces a quantified boolean by a fresh propositional symbol
// defined (in the facts) to be equivalent to it, so that quantifiers only
// occur in boolean positions of assumptions.
func (e *Exec) nameQuant(st *State, t *smt.Term) *smt.Term {
	if !smt.HasQuant(t) {
		return t
	}
	if e.quantNames == nil {
		e.quantNames = map[int]*smt.Term{}
	}
	if b, ok := e.quantNames[t.ID]; ok {
		return b
	}
	b := e.C.FreshOver("q", smt.Bool, t)
	e.quantNames[t.ID] = b
	e.addAxioms(e.C.Eq(b, t))
	return b
}

// addAxioms records global axioms; an axiom that mentions bound variables
// (created while evaluating under a quantifier) is universally closed.
func (e *Exec) addAxioms(ts ...*smt.Term) {
	for _, t := range ts {
		var vars []*smt.Term
		seen := map[int]bool{}
		var walk func(x *smt.Term)
		walk = func(x *smt.Term) {
			if seen[x.ID] {
				return
			}
			seen[x.ID] = true
			if x.Op == "bvar" {
				vars = append(vars, x)
			}
			if x.Op == "forall" || x.Op == "exists" {
				// variables bound inside are not free
				inner := map[int]bool{}
				for _, v := range x.Vars {
					inner[v.ID] = true
				}
				before := len(vars)
				for _, a := range x.Args {
					walk(a)
				}
				kept := vars[:before]
				for _, v := range vars[before:] {
					if !inner[v.ID] {
						kept = append(kept, v)
					}
				}
				vars = kept
				return
			}
			for _, a := range x.Args {
				walk(a)
			}
		}
		walk(t)
		if len(vars) > 0 {
			// the same fact is met under many quantifiers (each with its own bound
			// variable): closed over canonical variables it is one axiom
			if e.axVars == nil {
				e.axVars = map[string]*smt.Term{}
			}
			m := map[*smt.Term]*smt.Term{}
			var cvs []*smt.Term
			for i, v := range vars {
				k := fmt.Sprintf("%d|%s", i, v.Sort.String())
				cv, ok := e.axVars[k]
				if !ok {
					cv = e.C.BoundVar(fmt.Sprintf("ax%d", i), v.Sort)
					e.axVars[k] = cv
				}
				m[v] = cv
				cvs = append(cvs, cv)
			}
			t = e.C.Forall(cvs, e.C.Subst(t, m))
		}
		if e.axDone == nil {
			e.axDone = map[int]bool{}
		}
		if e.axDone[t.ID] {
			continue
		}
		e.axDone[t.ID] = true
		e.Axioms = append(e.Axioms, t)
	}
}

func (e *Exec) lenBound() uint64 {
	if e.SmallLen > 0 {
		return e.SmallLen
	}
	return maxLen
}
