package vc

import (
	"golang.org/x/tools/go/ssa"
	"fmt"
	"go/token"
	"go/types"
	"strings"

	"govc/smt"
)

// NilV is the spec-level nil.
type NilV struct{}

func (NilV) isValue() {}

// RecV is a ghost call record exposed to specs.
type RecV struct{ R *CallRec }

func (RecV) isValue() {}

// RecListV is a ghost trace.
type RecListV struct{ Rs []*CallRec }

func (RecListV) isValue() {}

type specVar func(st *State) Value

type specEnv struct {
	e       *Exec
	st      *State
	old     *State
	vars    map[string]specVar
	bound   map[string]Value
	where   string
	recBase map[string]int // ghost-trace indices are relative to the records that existed before the call
}

type specError struct{ msg string }

func (se *specEnv) fail(format string, a ...interface{}) {
	panic(specError{fmt.Sprintf("spec %s: %s", se.where, fmt.Sprintf(format, a...))})
}

func (se *specEnv) sub() *specEnv {
	n := *se
	n.bound = map[string]Value{}
	for k, v := range se.bound {
		n.bound[k] = v
	}
	return &n
}

func (se *specEnv) evalBool(x SExpr) *smt.Term {
	v := se.eval(x)
	if _, ok := v.(AbsentV); ok {
		return se.e.C.Fresh("absent", smt.Bool)
	}
	s, ok := v.(Scalar)
	if !ok || !s.T.Sort.IsBool() {
		se.fail("expected boolean, got %T in %s", v, exprString(x))
	}
	return s.T
}

var intTyp = types.Typ[types.Int]
var boolTyp = types.Typ[types.Bool]

func boolV(t *smt.Term) Value { return Scalar{T: t, Typ: boolTyp} }

func (se *specEnv) eval(x SExpr) Value {
	e := se.e
	c := e.C
	switch n := x.(type) {
	case *SInt:
		return Untyped{V: int64(n.V)}
	case *SStr:
		return Scalar{T: e.strLit(n.V), Typ: types.Typ[types.String]}
	case *SIdent:
		switch n.Name {
		case "nil":
			return NilV{}
		case "true":
			return boolV(c.True())
		case "false":
			return boolV(c.False())
		}
		if v, ok := se.bound[n.Name]; ok {
			return v
		}
		if f, ok := se.vars[n.Name]; ok {
			return f(se.st)
		}
		if v, ok := e.DB.Consts[n.Name]; ok {
			return Untyped{V: int64(v)}
		}
		if g := e.lookupGlobal(n.Name); g != nil && se.st != nil {
			return e.loadLoc(se.st, &Loc{Obj: e.globalObj(g)})
		}
		if se.st != nil && se.st.ghost != nil {
			if v, ok := se.st.ghost[n.Name]; ok {
				return v
			}
		}
		// ghost traces
		if se.st != nil {
			var rs []*CallRec
			for _, r := range se.st.recs {
				if r.Name == n.Name {
					rs = append(rs, r)
				}
			}
			if rs != nil || e.DB.isTraceName(n.Name) {
				if b := se.recBase[n.Name]; b > 0 {
					if b > len(rs) {
						b = len(rs)
					}
					rs = rs[b:]
				}
				return RecListV{Rs: rs}
			}
		}
		se.fail("unknown identifier %q", n.Name)
	case *SUn:
		switch n.Op {
		case "!":
			return boolV(c.Not(se.evalBool(n.X)))
		case "-":
			v := se.eval(n.X)
			if u, ok := v.(Untyped); ok {
				return Untyped{V: -u.V}
			}
			s := se.scalar(v, n.X)
			return Scalar{T: c.BVNeg(s.T), Typ: s.Typ}
		case "^":
			v := se.eval(n.X)
			if u, ok := v.(Untyped); ok {
				return Untyped{V: ^u.V}
			}
			s := se.scalar(v, n.X)
			return Scalar{T: c.BVNot(s.T), Typ: s.Typ}
		case "*":
			v := se.eval(n.X)
			p, ok := v.(*PtrV)
			if !ok {
				se.fail("deref of non-pointer %T", v)
			}
			return se.deref(p)
		}
	case *SBin:
		return se.binary(n)
	case *SField:
		return se.field(se.eval(n.X), n.Name, n)
	case *SIndex:
		base := se.eval(n.X)
		if rl, ok := base.(RecListV); ok {
			iv, ok := se.eval(n.I).(Untyped)
			if !ok {
				se.fail("ghost trace index must be a constant")
			}
			if int(iv.V) >= len(rl.Rs) {
				// no such call on any path: an absent record
				return RecV{R: &CallRec{Guard: c.False()}}
			}
			return RecV{R: rl.Rs[iv.V]}
		}
		idx := se.index(se.eval(n.I), n.I)
		switch b := base.(type) {
		case *SliceV:
			return e.readSlice(se.st, b, idx)
		case *ArrV:
			return b.Read(idx)
		case *SeqV:
			w := b.W
			var T types.Type = types.Typ[types.Uint8]
			if w == 64 {
				T = types.Typ[types.Uint64]
			}
			return Scalar{T: b.Read(idx), Typ: T}
		case *PtrV: // pointer to array
			if a, ok := se.deref(b).(*ArrV); ok {
				return a.Read(idx)
			}
		case Scalar:
			if b.T.Sort == sortStr {
				return Scalar{T: c.App("str_at", smt.BV(8), b.T, idx), Typ: types.Typ[types.Uint8]}
			}
		}
		se.fail("cannot index %T in %s", base, exprString(n))
	case *SSlice:
		base := se.eval(n.X)
		var lo, hi *smt.Term
		if n.Lo != nil {
			lo = se.index(se.eval(n.Lo), n.Lo)
		} else {
			lo = bv64(c, 0)
		}
		switch b := base.(type) {
		case *SeqV:
			if n.Hi != nil {
				hi = se.index(se.eval(n.Hi), n.Hi)
			} else {
				hi = b.Len
			}
			return &SeqV{W: b.W, Len: c.BVSub(hi, lo), Read: func(i *smt.Term) *smt.Term { return b.Read(c.BVAdd(lo, i)) }}
		case *SliceV:
			if n.Hi != nil {
				hi = se.index(se.eval(n.Hi), n.Hi)
			} else {
				hi = b.Len
			}
			r := &SliceV{Elem: b.Elem, Len: c.BVSub(hi, lo), Cap: c.BVSub(b.Cap, lo)}
			for _, al := range b.Alts {
				if al.Loc == nil {
					r.Alts = append(r.Alts, al)
				} else {
					r.Alts = append(r.Alts, SliceAlt{Cond: al.Cond, Loc: al.Loc, Off: c.BVAdd(al.Off, lo)})
				}
			}
			return r
		case *ArrV:
			if n.Hi != nil {
				hi = se.index(se.eval(n.Hi), n.Hi)
			} else {
				hi = bv64(c, b.N)
			}
			return se.arrSeq(b, lo, c.BVSub(hi, lo))
		}
		se.fail("cannot slice %T", base)
	case *SQuant:
		return se.quant(n)
	case *SCall:
		return se.call(n)
	}
	se.fail("unsupported expression %s", exprString(x))
	return nil
}

func (se *specEnv) arrSeq(a *ArrV, off, ln *smt.Term) *SeqV {
	w, _, ok := intInfo(a.Elem)
	if !ok {
		se.fail("sequence of non-integer elements")
	}
	c := se.e.C
	return &SeqV{W: w, Len: ln, Read: func(i *smt.Term) *smt.Term {
		return a.Read(c.BVAdd(off, i)).(Scalar).T
	}}
}

func (se *specEnv) scalar(v Value, x SExpr) Scalar {
	s, ok := v.(Scalar)
	if !ok {
		se.fail("expected scalar, got %T in %s", v, exprString(x))
	}
	return s
}

// index coerces a value to a signed 64-bit index term.
func (se *specEnv) index(v Value, x SExpr) *smt.Term {
	c := se.e.C
	switch s := v.(type) {
	case Untyped:
		return bv64(c, s.V)
	case Scalar:
		if s.T.Sort.IsBV() {
			if s.T.Sort.W == 64 {
				return s.T
			}
			_, signed, _ := intInfo(s.Typ)
			if signed {
				return c.SExt(s.T, 64)
			}
			return c.ZExt(s.T, 64)
		}
	}
	se.fail("expected integer index, got %T in %s", v, exprString(x))
	return nil
}

// deref loads through a pointer without a nil obligation (spec expressions
// are only meaningful under their own nil guards).
func (se *specEnv) deref(p *PtrV) Value {
	var res Value
	for i := len(p.Alts) - 1; i >= 0; i-- {
		al := p.Alts[i]
		if al.Loc == nil {
			continue
		}
		v := se.e.loadLoc(se.st, al.Loc)
		if res == nil {
			res = v
		} else {
			res = se.e.merge(al.Cond, v, res)
		}
	}
	if res == nil {
		return se.e.fresh(p.Elem, "specnil")
	}
	return res
}

func (se *specEnv) field(v Value, name string, x SExpr) Value {
	e := se.e
	c := e.C
	switch b := v.(type) {
	case *PtrV:
		return se.field(se.deref(b), name, x)
	case *StructV:
		for i := 0; i < b.T.NumFields(); i++ {
			if b.T.Field(i).Name() == name {
				return b.Field(i)
			}
		}
		// promoted fields of embedded structs
		for i := 0; i < b.T.NumFields(); i++ {
			if b.T.Field(i).Embedded() {
				if sv, ok := b.Field(i).(*StructV); ok {
					for j := 0; j < sv.T.NumFields(); j++ {
						if sv.T.Field(j).Name() == name {
							return sv.Field(j)
						}
					}
				}
			}
		}
		se.fail("no field %q in struct (%s)", name, exprString(x))
	case Scalar:
		if b.Typ != nil {
			if stt, ok := b.Typ.Underlying().(*types.Struct); ok {
				for i := 0; i < stt.NumFields(); i++ {
					if stt.Field(i).Name() == name {
						return e.projectField(b, i)
					}
				}
			}
		}
	case RecV:
		r := b.R
		switch name {
		case "happened":
			return boolV(r.Guard)
		}
		if r.Snap != nil {
			if sv, ok := r.Snap[name]; ok {
				return sv
			}
		}
		se.fail("no snapshot %q in ghost record %q", name, r.Name)
	case *TupleV:
		var idx int
		if _, err := fmt.Sscanf(name, "_%d", &idx); err == nil && idx < len(b.Vs) {
			return b.Vs[idx]
		}
	case *SeqV:
		if name == "len" {
			return Scalar{T: b.Len, Typ: intTyp}
		}
	case *IfaceV:
		_ = c
	}
	se.fail("cannot select field %q of %T in %s", name, v, exprString(x))
	return nil
}

// coerce makes two operands type-compatible (untyped constants adapt).
func (se *specEnv) coerce(a, b Value, x SExpr) (Scalar, Scalar) {
	c := se.e.C
	if _, abs := a.(AbsentV); abs {
		a = Scalar{T: c.Fresh("absent", smt.BV(64)), Typ: intTyp}
	}
	if _, abs := b.(AbsentV); abs {
		b = Scalar{T: c.Fresh("absent", smt.BV(64)), Typ: intTyp}
	}
	ua, aok := a.(Untyped)
	ub, bok := b.(Untyped)
	switch {
	case aok && bok:
		return Scalar{T: bv64(c, ua.V), Typ: intTyp}, Scalar{T: bv64(c, ub.V), Typ: intTyp}
	case aok:
		sb := se.scalar(b, x)
		if !sb.T.Sort.IsBV() {
			se.fail("integer constant compared with non-integer in %s", exprString(x))
		}
		return Scalar{T: c.BVC(uint64(ua.V), sb.T.Sort.W), Typ: sb.Typ}, sb
	case bok:
		sa := se.scalar(a, x)
		if !sa.T.Sort.IsBV() {
			se.fail("integer constant compared with non-integer in %s", exprString(x))
		}
		return sa, Scalar{T: c.BVC(uint64(ub.V), sa.T.Sort.W), Typ: sa.Typ}
	}
	sa, sb := se.scalar(a, x), se.scalar(b, x)
	if sa.T.Sort != sb.T.Sort {
		// widen the narrower integer
		if sa.T.Sort.IsBV() && sb.T.Sort.IsBV() {
			wa, wb := sa.T.Sort.W, sb.T.Sort.W
			_, sga, _ := intInfo(sa.Typ)
			_, sgb, _ := intInfo(sb.Typ)
			ext := func(s Scalar, signed bool, w int) *smt.Term {
				if signed {
					return c.SExt(s.T, w)
				}
				return c.ZExt(s.T, w)
			}
			if wa < wb {
				return Scalar{T: ext(sa, sga, wb), Typ: sb.Typ}, sb
			}
			return sa, Scalar{T: ext(sb, sgb, wa), Typ: sa.Typ}
		}
		se.fail("operands of different sorts %v / %v in %s", sa.T.Sort, sb.T.Sort, exprString(x))
	}
	return sa, sb
}

func isSigned(t types.Type) bool {
	if t == nil {
		return true
	}
	_, s, ok := intInfo(t)
	return !ok || s
}

var opTok = map[string]token.Token{
	"+": token.ADD, "-": token.SUB, "*": token.MUL, "/": token.QUO, "%": token.REM,
	"&": token.AND, "|": token.OR, "^": token.XOR, "<<": token.SHL, ">>": token.SHR, "&^": token.AND_NOT,
	"<": token.LSS, "<=": token.LEQ, ">": token.GTR, ">=": token.GEQ,
}

func (se *specEnv) binary(n *SBin) Value {
	e := se.e
	c := e.C
	switch n.Op {
	case "&&":
		return boolV(c.And(se.evalBool(n.L), se.evalBool(n.R)))
	case "||":
		return boolV(c.Or(se.evalBool(n.L), se.evalBool(n.R)))
	case "==>":
		return boolV(c.Implies(se.evalBool(n.L), se.evalBool(n.R)))
	case "<==>":
		return boolV(c.Eq(se.evalBool(n.L), se.evalBool(n.R)))
	case "==", "!=":
		eq := se.equal(se.eval(n.L), se.eval(n.R), n)
		if n.Op == "!=" {
			eq = c.Not(eq)
		}
		return boolV(eq)
	}
	a, b := se.eval(n.L), se.eval(n.R)
	if ua, ok := a.(Untyped); ok {
		if ub, ok := b.(Untyped); ok {
			switch n.Op {
			case "+":
				return Untyped{V: ua.V + ub.V}
			case "-":
				return Untyped{V: ua.V - ub.V}
			case "*":
				return Untyped{V: ua.V * ub.V}
			case "<<":
				return Untyped{V: ua.V << uint(ub.V)}
			case "|":
				return Untyped{V: ua.V | ub.V}
			case "&":
				return Untyped{V: ua.V & ub.V}
			case "/":
				if ub.V != 0 {
					return Untyped{V: ua.V / ub.V}
				}
			}
		}
	}
	if n.Op == "<<" || n.Op == ">>" {
		sa := se.scalarOrInt(a, n)
		cnt := se.index(b, n.R)
		w := sa.T.Sort.W
		var ct *smt.Term
		if w == 64 {
			ct = cnt
		} else {
			ct = c.Extract(w-1, 0, cnt)
		}
		if n.Op == "<<" {
			return Scalar{T: c.BVShl(sa.T, ct), Typ: sa.Typ}
		}
		if isSigned(sa.Typ) {
			return Scalar{T: c.BVAshr(sa.T, ct), Typ: sa.Typ}
		}
		return Scalar{T: c.BVLshr(sa.T, ct), Typ: sa.Typ}
	}
	sa, sb := se.coerce(a, b, n)
	tk, ok := opTok[n.Op]
	if !ok {
		se.fail("unknown operator %s", n.Op)
	}
	if sa.T.Sort == sortStr && n.Op == "+" {
		return Scalar{T: c.App("str_cat", sortStr, sa.T, sb.T), Typ: types.Typ[types.String]}
	}
	if sa.T.Sort.IsUninterp() {
		// ordering on abstract sorts (time instants): uninterpreted strict order
		lt := func(x, y *smt.Term) *smt.Term { return c.App("lt_"+x.Sort.Name, smt.Bool, x, y) }
		switch n.Op {
		case "<":
			return boolV(lt(sa.T, sb.T))
		case ">":
			return boolV(lt(sb.T, sa.T))
		case "<=":
			return boolV(c.Not(lt(sb.T, sa.T)))
		case ">=":
			return boolV(c.Not(lt(sa.T, sb.T)))
		}
		se.fail("operator %s on abstract sort", n.Op)
	}
	typ := sa.Typ
	if typ == nil {
		typ = intTyp
	}
	var rt types.Type = typ
	switch n.Op {
	case "<", "<=", ">", ">=":
		rt = boolTyp
	}
	// spec arithmetic never raises division obligations
	if n.Op == "/" || n.Op == "%" {
		if isSigned(typ) {
			if n.Op == "/" {
				return Scalar{T: c.BVSDiv(sa.T, sb.T), Typ: typ}
			}
			return Scalar{T: c.BVSRem(sa.T, sb.T), Typ: typ}
		}
		if n.Op == "/" {
			return Scalar{T: c.BVUDiv(sa.T, sb.T), Typ: typ}
		}
		return Scalar{T: c.BVURem(sa.T, sb.T), Typ: typ}
	}
	return e.binopV(se.st, tk, sa, sb, typ, typ, rt, exprString(n), token.NoPos)
}

func (se *specEnv) scalarOrInt(v Value, x SExpr) Scalar {
	if u, ok := v.(Untyped); ok {
		return Scalar{T: bv64(se.e.C, u.V), Typ: intTyp}
	}
	return se.scalar(v, x)
}

// equal is spec-level equality.
func (se *specEnv) equal(a, b Value, x SExpr) *smt.Term {
	e := se.e
	c := e.C
	if _, ok := a.(AbsentV); ok {
		return c.Fresh("absent", smt.Bool)
	}
	if _, ok := b.(AbsentV); ok {
		return c.Fresh("absent", smt.Bool)
	}
	if _, ok := a.(NilV); ok {
		a, b = b, a
	}
	if _, ok := b.(NilV); ok {
		switch v := a.(type) {
		case *PtrV:
			return e.nilCond(v)
		case *SliceV:
			return e.sliceNil(v)
		case *IfaceV:
			return e.ifaceNil(v)
		case *MapV:
			return c.Eq(v.ID, c.BVC(uint64(0), 64))
		case *FuncV:
			if v.Fn != nil {
				return c.False()
			}
			return c.Eq(v.ID, c.BVC(uint64(0), 64))
		case NilV:
			return c.True()
		}
		se.fail("comparison of %T with nil in %s", a, exprString(x))
	}
	switch va := a.(type) {
	case *SeqV:
		vb, ok := b.(*SeqV)
		if !ok {
			se.fail("sequence compared with %T in %s", b, exprString(x))
		}
		return e.seqEq(va, vb)
	case Untyped, Scalar:
		switch b.(type) {
		case Untyped, Scalar:
			sa, sb := se.coerce(a, b, x)
			return c.Eq(sa.T, sb.T)
		}
	case *SliceV:
		if vb, ok := b.(*SliceV); ok {
			// identity of slice headers
			return c.And(c.Eq(va.Len, vb.Len), c.Eq(va.Cap, vb.Cap), c.Eq(e.sliceBaseAddr(va), e.sliceBaseAddr(vb)))
		}
	case *StructV:
		if sb, ok := b.(Scalar); ok && va.Origin != nil && va.Origin.Sort == sb.T.Sort {
			return c.Eq(va.Origin, sb.T)
		}
		if vb, ok := b.(*StructV); ok {
			if va.Origin != nil && vb.Origin != nil {
				return c.Eq(va.Origin, vb.Origin)
			}
			r := c.True()
			for i := 0; i < va.T.NumFields(); i++ {
				r = c.And(r, se.equal(va.Field(i), vb.Field(i), x))
			}
			return r
		}
	}
	return e.valuesEqual(se.st, a, b)
}

// sliceBaseAddr is an identity term for the start of a slice.
func (e *Exec) sliceBaseAddr(s *SliceV) *smt.Term {
	c := e.C
	var res *smt.Term
	for i := len(s.Alts) - 1; i >= 0; i-- {
		al := s.Alts[i]
		var a *smt.Term
		if al.Loc == nil {
			a = c.BVC(uint64(0), 64)
		} else {
			a = c.App("elemaddr", refSort, e.locAddr(al.Loc), al.Off)
		}
		if res == nil {
			res = a
		} else {
			res = c.Ite(al.Cond, a, res)
		}
	}
	if res == nil {
		return c.BVC(uint64(0), 64)
	}
	return res
}

// seqEq: equal lengths and equal elements.
func (e *Exec) seqEq(a, b *SeqV) *smt.Term {
	c := e.C
	if a == b {
		return c.True()
	}
	k := c.BoundVar("k", smt.BV(64))
	body := c.Implies(c.And(c.BVSle(bv64(c, 0), k), c.BVSlt(k, a.Len)), c.Eq(a.Read(k), b.Read(k)))
	return c.And(c.Eq(a.Len, b.Len), c.Forall([]*smt.Term{k}, body))
}

// sliceSeq snapshots the contents of a byte slice as a sequence.
func (e *Exec) sliceSeq(st *State, s *SliceV) *SeqV {
	c := e.C
	w, _, ok := intInfo(s.Elem)
	if !ok {
		e.refuse("seq() of a slice with non-integer elements")
	}
	type alt struct {
		cond *smt.Term
		arr  *ArrV
		off  *smt.Term
	}
	var alts []alt
	for _, al := range s.Alts {
		if al.Loc == nil {
			continue
		}
		arr, ok := e.loadLoc(st, al.Loc).(*ArrV)
		if !ok {
			e.refuse("slice backing store is not an array")
		}
		alts = append(alts, alt{al.Cond, arr, al.Off})
	}
	return &SeqV{W: w, Len: s.Len, Read: func(i *smt.Term) *smt.Term {
		var res *smt.Term
		for k := len(alts) - 1; k >= 0; k-- {
			v := alts[k].arr.Read(c.BVAdd(alts[k].off, i)).(Scalar).T
			if res == nil {
				res = v
			} else {
				res = c.Ite(alts[k].cond, v, res)
			}
		}
		if res == nil {
			return c.BVC(0, w)
		}
		return res
	}}
}

var sortByteSeq = smt.U("ByteSeq")

type seqName struct {
	s *SeqV
	t *smt.Term
}

// extAxiom returns the extensionality instance for two named sequences and its witness.
func (e *Exec) extAxiom(a, b *smt.Term, w int) (*smt.Term, *smt.Term) {
	c := e.C
	if a.ID > b.ID {
		a, b = b, a
	}
	key := [2]int{a.ID, b.ID}
	if e.extMemo == nil {
		e.extMemo = map[[2]int][2]*smt.Term{}
	}
	if r, ok := e.extMemo[key]; ok {
		return r[0], r[1]
	}
	at := func(x, i *smt.Term) *smt.Term { return c.App(fmt.Sprintf("seq_at%d", w), smt.BV(w), x, i) }
	ln := func(x *smt.Term) *smt.Term { return c.App("seq_len", smt.BV(64), x) }
	d := c.FreshOver("diff", smt.BV(64), a, b)
	ax := c.Or(c.Eq(a, b), c.Neq(ln(a), ln(b)),
		c.And(c.BVSle(bv64(c, 0), d), c.BVSlt(d, ln(a)), c.Neq(at(a, d), at(b, d))))
	e.extMemo[key] = [2]*smt.Term{ax, d}
	return ax, d
}

// seqTerm names a sequence by a fresh ByteSeq constant with defining facts
// and pairwise extensionality witnesses.
func (e *Exec) seqTerm(st *State, s *SeqV) *smt.Term {
	c := e.C
	for _, n := range e.seqNames {
		if n.s == s {
			return n.t
		}
	}
	// structurally identical sequences (same length term, same element term at
	// a generic probe index) share one name
	if e.seqProbe == nil {
		e.seqProbe = c.Fresh("probe", smt.BV(64))
		e.seqByKey = map[string]*smt.Term{}
	}
	// a view of an existing sequence term is that term
	if r := s.Read(e.seqProbe); r.Op == "app" && r.Name == fmt.Sprintf("seq_at%d", s.W) && len(r.Args) == 2 && r.Args[1] == e.seqProbe && r.Args[0].Sort == sortByteSeq {
		t := r.Args[0]
		if (s.Len.Op == "app" && s.Len.Name == "seq_len" && s.Len.Args[0] == t) || (e.fixedLen[t.ID] != nil && e.fixedLen[t.ID] == s.Len) {
			e.seqNames = append(e.seqNames, seqName{s, t})
			return t
		}
	}
	// the whole contents of a slice whose memory has not been written: a
	// canonical term of the slice header, the same for the code and for a
	// contract that mentions the same slice (possibly under a quantifier)
	if s.Len.Op == "app" && s.Len.Name == "sl_len" && len(s.Len.Args) == 1 {
		h := s.Len.Args[0]
		if r := s.Read(e.seqProbe); r.Op == "app" && strings.HasPrefix(r.Name, "mem_") && len(r.Args) == 2 && r.Args[1] == e.seqProbe &&
			r.Args[0].Op == "app" && r.Args[0].Name == "sl_reg" && r.Args[0].Args[0] == h {
			t := c.App("slice_seq_"+r.Name, sortByteSeq, h)
			if e.sliceSeqDone == nil {
				e.sliceSeqDone = map[int]bool{}
			}
			if !e.sliceSeqDone[t.ID] {
				e.sliceSeqDone[t.ID] = true
				k := c.BoundVar("defk", smt.BV(64))
				at := func(x, i *smt.Term) *smt.Term { return c.App(fmt.Sprintf("seq_at%d", s.W), smt.BV(s.W), x, i) }
				e.addAxioms(
					c.Eq(c.App("seq_len", smt.BV(64), t), s.Len),
					c.Forall([]*smt.Term{k}, c.Implies(c.And(c.BVSle(bv64(c, 0), k), c.BVSlt(k, s.Len)), c.Eq(at(t, k), s.Read(k)))))
			}
			e.seqNames = append(e.seqNames, seqName{s, t})
			return t
		}
	}
	key := fmt.Sprintf("%d|%d|%d", s.W, s.Len.ID, s.Read(e.seqProbe).ID)
	if t, ok := e.seqByKey[key]; ok {
		e.seqNames = append(e.seqNames, seqName{s, t})
		return t
	}
	// a sequence that depends on quantified variables is named by a function
	// of them; the function is shared by all quantifiers whose sequence has the
	// same structure up to the names of those variables (so the invariant and
	// the postcondition of a loop talk about the same seq!N(k))
	if fv := smt.FreeBVars(s.Len, s.Read(e.seqProbe)); len(fv) > 0 && len(c.FreshParams) == 0 {
		canon := map[*smt.Term]*smt.Term{}
		for i, v := range fv {
			if e.canonVars == nil {
				e.canonVars = map[string]*smt.Term{}
			}
			ck := fmt.Sprintf("%d|%s", i, v.Sort.String())
			cv, ok := e.canonVars[ck]
			if !ok {
				cv = c.BoundVar("canon", v.Sort)
				e.canonVars[ck] = cv
			}
			canon[v] = cv
		}
		ckey := fmt.Sprintf("canon|%d|%d|%d", s.W, c.Subst(s.Len, canon).ID, c.Subst(s.Read(e.seqProbe), canon).ID)
		if name, ok := e.seqFuncByKey[ckey]; ok {
			t := c.App(name, sortByteSeq, fv...)
			e.seqByKey[key] = t
			e.seqNames = append(e.seqNames, seqName{s, t})
			return t
		}
		t := c.FreshOver("seq", sortByteSeq, s.Len, s.Read(e.seqProbe))
		if e.seqFuncByKey == nil {
			e.seqFuncByKey = map[string]string{}
		}
		e.seqFuncByKey[ckey] = t.Name
		e.seqByKey[key] = t
		k := c.BoundVar("defk", smt.BV(64))
		at := func(x, i *smt.Term) *smt.Term { return c.App(fmt.Sprintf("seq_at%d", s.W), smt.BV(s.W), x, i) }
		ln := func(x *smt.Term) *smt.Term { return c.App("seq_len", smt.BV(64), x) }
		e.addAxioms(
			c.Eq(ln(t), s.Len),
			c.Forall([]*smt.Term{k}, c.Implies(c.And(c.BVSle(bv64(c, 0), k), c.BVSlt(k, s.Len)), c.Eq(at(t, k), s.Read(k)))))
		e.seqNames = append(e.seqNames, seqName{s, t})
		return t
	}
	t := c.FreshOver("seq", sortByteSeq, s.Len, s.Read(e.seqProbe))
	e.seqByKey[key] = t
	k := c.BoundVar("defk", smt.BV(64))
	at := func(x, i *smt.Term) *smt.Term { return c.App(fmt.Sprintf("seq_at%d", s.W), smt.BV(s.W), x, i) }
	ln := func(x *smt.Term) *smt.Term { return c.App("seq_len", smt.BV(64), x) }
	e.addAxioms(
		c.Eq(ln(t), s.Len),
		c.Forall([]*smt.Term{k}, c.Implies(c.And(c.BVSle(bv64(c, 0), k), c.BVSlt(k, s.Len)), c.Eq(at(t, k), s.Read(k)))))
	e.seqNames = append(e.seqNames, seqName{s, t})
	return t
}

func (se *specEnv) quant(n *SQuant) Value {
	e := se.e
	c := e.C
	// constant-range expansion:  forall i :: lo <= i && i < hi ==> body
	if len(n.Vars) == 1 {
		if lo, hi, body, ok := constRange(n.Body, n.Vars[0], n.Forall); ok && hi-lo <= 64 && hi >= lo {
			var parts []*smt.Term
			for i := lo; i < hi; i++ {
				sub := se.sub()
				sub.bound[n.Vars[0]] = Untyped{V: i}
				parts = append(parts, sub.evalBool(body))
			}
			if n.Forall {
				return boolV(c.And(parts...))
			}
			return boolV(c.Or(parts...))
		}
	}
	sub := se.sub()
	var vars []*smt.Term
	for _, v := range n.Vars {
		bv := c.BoundVar(v, smt.BV(64))
		vars = append(vars, bv)
		sub.bound[v] = Scalar{T: bv, Typ: intTyp}
	}
	body := sub.evalBool(n.Body)
	if n.Forall {
		return boolV(c.Forall(vars, body))
	}
	return boolV(c.Exists(vars, body))
}

// constRange recognises  lo <= i && i < hi ==> B  (forall) or  lo <= i && i < hi && B (exists).
func constRange(body SExpr, v string, forall bool) (lo, hi int64, rest SExpr, ok bool) {
	b, isB := body.(*SBin)
	if !isB {
		return
	}
	var rng SExpr
	if forall && b.Op == "==>" {
		rng, rest = b.L, b.R
	} else if !forall && b.Op == "&&" {
		// (lo <= i && i < hi) && B
		rng, rest = b.L, b.R
	} else {
		return
	}
	r, isB := rng.(*SBin)
	if !isB || r.Op != "&&" {
		return
	}
	l1, ok1 := r.L.(*SBin)
	l2, ok2 := r.R.(*SBin)
	if !ok1 || !ok2 || l1.Op != "<=" || l2.Op != "<" {
		return
	}
	loC, okA := l1.L.(*SInt)
	id1, okB := l1.R.(*SIdent)
	id2, okC := l2.L.(*SIdent)
	hiC, okD := l2.R.(*SInt)
	if !okA || !okB || !okC || !okD || id1.Name != v || id2.Name != v {
		return
	}
	return int64(loC.V), int64(hiC.V), rest, true
}

var castWidths = map[string]struct {
	w      int
	signed bool
	t      types.Type
}{
	"uint8": {8, false, types.Typ[types.Uint8]}, "byte": {8, false, types.Typ[types.Uint8]},
	"uint16": {16, false, types.Typ[types.Uint16]}, "uint32": {32, false, types.Typ[types.Uint32]},
	"uint64": {64, false, types.Typ[types.Uint64]}, "uint": {64, false, types.Typ[types.Uint]},
	"int8": {8, true, types.Typ[types.Int8]}, "int16": {16, true, types.Typ[types.Int16]},
	"int32": {32, true, types.Typ[types.Int32]}, "int64": {64, true, types.Typ[types.Int64]}, "int": {64, true, types.Typ[types.Int]},
	"uintptr": {64, false, types.Typ[types.Uintptr]},
}

func (se *specEnv) call(n *SCall) Value {
	e := se.e
	c := e.C
	if cw, ok := castWidths[n.Fun]; ok && len(n.Args) == 1 {
		v := se.eval(n.Args[0])
		if u, ok := v.(Untyped); ok {
			return Scalar{T: c.BVC(uint64(u.V), cw.w), Typ: cw.t}
		}
		s := se.scalar(v, n)
		if !s.T.Sort.IsBV() {
			se.fail("cast of non-integer in %s", exprString(n))
		}
		var t *smt.Term
		switch {
		case cw.w <= s.T.Sort.W:
			t = c.Extract(cw.w-1, 0, s.T)
		case isSigned(s.Typ):
			t = c.SExt(s.T, cw.w)
		default:
			t = c.ZExt(s.T, cw.w)
		}
		return Scalar{T: t, Typ: cw.t}
	}
	switch n.Fun {
	case "old":
		if len(n.Args) != 1 {
			se.fail("old takes one argument")
		}
		if se.old == nil {
			se.fail("old() not available here")
		}
		sub := se.sub()
		sub.st = se.old
		return sub.eval(n.Args[0])
	case "before", "after":
		if len(n.Args) != 2 {
			se.fail("%s(record, expr)", n.Fun)
		}
		rv, ok := se.eval(n.Args[0]).(RecV)
		if !ok {
			se.fail("%s: first argument must be a ghost call record", n.Fun)
		}
		r := rv.R
		if r.Pre == nil {
			// absent record: the value is irrelevant (guard is false)
			return se.absent(n.Args[1])
		}
		sub := se.sub()
		sub.vars = map[string]specVar{}
		for k, v := range se.vars {
			sub.vars[k] = v
			if !strings.HasPrefix(k, "outer_") {
				sub.vars["outer_"+k] = v
			}
		}
		for k, v := range r.Vars {
			sub.vars[k] = v
		}
		if n.Fun == "before" {
			sub.st = r.Pre
			// results are not visible before the call
		} else {
			sub.st = r.Post
			if sub.st == nil {
				sub.st = se.st
			}
		}
		return sub.eval(n.Args[1])
	case "len", "cap":
		v := se.eval(n.Args[0])
		if _, abs := v.(AbsentV); abs {
			return AbsentV{}
		}
		switch s := v.(type) {
		case *SliceV:
			if n.Fun == "len" {
				return Scalar{T: s.Len, Typ: intTyp}
			}
			return Scalar{T: s.Cap, Typ: intTyp}
		case *SeqV:
			return Scalar{T: s.Len, Typ: intTyp}
		case *ArrV:
			return Untyped{V: s.N}
		case Scalar:
			if s.T.Sort == sortStr {
				return Scalar{T: c.App("str_len", smt.BV(64), s.T), Typ: intTyp}
			}
		case RecListV:
			// number of calls that happened
			t := bv64(c, 0)
			for _, r := range s.Rs {
				t = c.BVAdd(t, c.Ite(r.Guard, bv64(c, 1), bv64(c, 0)))
			}
			return Scalar{T: t, Typ: intTyp}
		case NilV:
			return Untyped{V: 0}
		}
		se.fail("len of %T in %s", v, exprString(n))
	case "seq":
		v := se.eval(n.Args[0])
		switch s := v.(type) {
		case *SliceV:
			return e.sliceSeq(se.st, s)
		case *SeqV:
			return s
		case *ArrV:
			return se.arrSeq(s, bv64(c, 0), bv64(c, s.N))
		case *PtrV:
			if a, ok := se.deref(s).(*ArrV); ok {
				return se.arrSeq(a, bv64(c, 0), bv64(c, a.N))
			}
		case Scalar:
			if s.T.Sort == sortStr {
				st := s.T
				return &SeqV{W: 8, Len: c.App("str_len", smt.BV(64), st), Read: func(i *smt.Term) *smt.Term {
					return c.App("str_at", smt.BV(8), st, i)
				}}
			}
		case NilV:
			return &SeqV{W: 8, Len: bv64(c, 0), Read: func(*smt.Term) *smt.Term { return c.BVC(0, 8) }}
		}
		se.fail("seq of %T in %s", v, exprString(n))
	case "cat":
		var parts []*SeqV
		for _, a := range n.Args {
			av := se.eval(a)
			if _, abs := av.(AbsentV); abs {
				return AbsentV{}
			}
			s, ok := av.(*SeqV)
			if !ok {
				se.fail("cat of non-sequence in %s", exprString(n))
			}
			parts = append(parts, s)
		}
		return catSeq(c, parts)
	case "zeros":
		ln := se.index(se.eval(n.Args[0]), n)
		return &SeqV{W: 8, Len: ln, Read: func(*smt.Term) *smt.Term { return c.BVC(0, 8) }}
	case "le16", "le32", "le64":
		w := map[string]int{"le16": 16, "le32": 32, "le64": 64}[n.Fun]
		v := se.eval(n.Args[0])
		var t *smt.Term
		if u, ok := v.(Untyped); ok {
			t = c.BVC(uint64(u.V), w)
		} else {
			s := se.scalar(v, n)
			if !s.T.Sort.IsBV() {
				se.fail("%s of non-integer", n.Fun)
			}
			if s.T.Sort.W >= w {
				t = c.Extract(w-1, 0, s.T)
			} else {
				t = c.ZExt(s.T, w)
			}
		}
		nb := w / 8
		return &SeqV{W: 8, Len: bv64(c, int64(nb)), Read: func(i *smt.Term) *smt.Term {
			var res *smt.Term
			for k := nb - 1; k >= 0; k-- {
				b := c.Extract(8*k+7, 8*k, t)
				if res == nil {
					res = b
				} else {
					res = c.Ite(c.Eq(i, bv64(c, int64(k))), b, res)
				}
			}
			return res
		}}
	case "rd16", "rd32", "rd64":
		w := map[string]int{"rd16": 16, "rd32": 32, "rd64": 64}[n.Fun]
		s, ok := se.eval(n.Args[0]).(*SeqV)
		if !ok {
			se.fail("%s of non-sequence", n.Fun)
		}
		off := bv64(c, 0)
		if len(n.Args) > 1 {
			off = se.index(se.eval(n.Args[1]), n)
		}
		var t *smt.Term
		for k := 0; k < w/8; k++ {
			b := s.Read(c.BVAdd(off, bv64(c, int64(k))))
			if t == nil {
				t = b
			} else {
				t = c.Concat(b, t)
			}
		}
		T := map[int]types.Type{16: types.Typ[types.Uint16], 32: types.Typ[types.Uint32], 64: types.Typ[types.Uint64]}[w]
		return Scalar{T: t, Typ: T}
	case "jsondecode":
		// jsondecode("pcs.TcbInfo", seq): what json.Unmarshal yields for that target type
		str, ok := n.Args[0].(*SStr)
		if !ok {
			se.fail("jsondecode(\"type\", seq)")
		}
		T := e.lookupType(str.V)
		if T == nil {
			se.fail("unknown type %q", str.V)
		}
		a1 := se.eval(n.Args[1])
		if _, abs := a1.(AbsentV); abs {
			return AbsentV{}
		}
		sq, ok := a1.(*SeqV)
		if !ok {
			se.fail("jsondecode of non-sequence")
		}
		return e.fromTerm(T, c.App("jsonDecode_"+sortName(T), sortOf(T), e.seqTerm(se.st, sq)), "jsondecode")
	case "iszero":
		// iszero(x): the zero-value test reflect.DeepEqual(x, T{}) performs on a
		// struct value read from memory (uninterpreted)
		sv, ok := se.eval(n.Args[0]).(*StructV)
		if !ok {
			se.fail("iszero of a non-struct value")
		}
		if sv.Zero {
			return boolV(c.True())
		}
		if sv.Origin == nil {
			// a value assembled by the code (no single term stands for it): the
			// test is an unknown boolean
			return boolV(c.Fresh("iszero", smt.Bool))
		}
		return boolV(c.App("isZero_"+smt.Sanitize(sv.Origin.Sort.String()), smt.Bool, sv.Origin))
	case "pristine":
		// pristine(p): p (a pointer, possibly inside an interface value) points to
		// a variable of this call that still holds the zero value it was
		// allocated with -- a decode target that cannot carry earlier data
		v := se.eval(n.Args[0])
		if iv, ok := v.(*IfaceV); ok {
			res := c.True()
			for _, al := range iv.Alts {
				pv, isP := al.Val.(*PtrV)
				if !isP {
					res = c.And(res, c.Not(al.Cond))
					continue
				}
				res = c.And(res, c.Implies(al.Cond, se.pristinePtr(pv)))
			}
			return boolV(res)
		}
		pv, ok := v.(*PtrV)
		if !ok {
			se.fail("pristine of a non-pointer")
		}
		return boolV(se.pristinePtr(pv))
	case "localof":
		// localof("[]byte"): the local variable of that type visible at the loop
		// the invariant belongs to, when there is exactly one
		str, ok := n.Args[0].(*SStr)
		if !ok {
			se.fail("localof(\"type\")")
		}
		f, ok := se.vars["#localof:"+strings.ReplaceAll(str.V, "uint8", "byte")]
		if !ok {
			se.fail("localof(%q): no unique local variable of that type at this loop", str.V)
		}
		return f(se.st)
	case "loopvar":
		// loopvar("time.Duration"): the loop-carried variable of that type, when
		// the loop has exactly one (bound by the loop the invariant belongs to)
		str, ok := n.Args[0].(*SStr)
		if !ok {
			se.fail("loopvar(\"type\")")
		}
		f, ok := se.vars["#loopvar:"+str.V]
		if !ok {
			se.fail("loopvar(%q): the loop has no unique loop-carried variable of that type", str.V)
		}
		return f(se.st)
	case "resultof":
		// resultof("x509.NewCertPool"): the value returned by the unique call of
		// that function in the function under verification (a way to refer to a
		// local without depending on its name)
		str, ok := n.Args[0].(*SStr)
		if !ok {
			se.fail("resultof(\"pkg.Func\")")
		}
		var found *ssa.Call
		for _, blk := range e.curFn().Blocks {
			for _, ins := range blk.Instrs {
				call, isCall := ins.(*ssa.Call)
				if !isCall {
					continue
				}
				f := call.Call.StaticCallee()
				if f == nil {
					continue
				}
				k := funcKey(f)
				if k == str.V || strings.HasSuffix(k, "/"+str.V) {
					if found != nil {
						se.fail("resultof(%q): more than one call", str.V)
					}
					found = call
				}
			}
		}
		if found == nil {
			se.fail("resultof(%q): no such call", str.V)
		}
		v, ok := se.st.env[found]
		if !ok {
			se.fail("resultof(%q): the call has not been executed at this point", str.V)
		}
		return v
	case "asn1decode", "asn1rest":
		// asn1decode("pkix.AttributeTypeAndValue", seq): the value asn1.Unmarshal
		// stores for that target type; asn1rest: the bytes it returns as rest
		str, ok := n.Args[0].(*SStr)
		if !ok {
			se.fail("%s(\"type\", seq)", n.Fun)
		}
		T := e.lookupType(str.V)
		if T == nil {
			se.fail("unknown type %q", str.V)
		}
		a1 := se.eval(n.Args[1])
		if _, abs := a1.(AbsentV); abs {
			return AbsentV{}
		}
		sq, ok := a1.(*SeqV)
		if !ok {
			se.fail("%s of non-sequence", n.Fun)
		}
		data := e.seqTerm(se.st, sq)
		if n.Fun == "asn1rest" {
			rt := c.App("asn1Rest_"+sortName(T), sortByteSeq, data)
			return &SeqV{W: 8, Len: c.App("seq_len", smt.BV(64), rt), Read: func(i *smt.Term) *smt.Term { return c.App("seq_at8", smt.BV(8), rt, i) }}
		}
		return e.fromTerm(T, c.App("asn1Decode_"+sortName(T), sortOf(T), data), "asn1decode")
	case "jsonmember":
		// jsonmember(seq, "name"): the raw JSON member that bodyToRawMessage extracts
		a0 := se.eval(n.Args[0])
		if _, abs := a0.(AbsentV); abs {
			return AbsentV{}
		}
		sq, ok := a0.(*SeqV)
		if !ok {
			se.fail("jsonmember(seq, name)")
		}
		key := se.scalar(se.eval(n.Args[1]), n)
		raw := e.lookupType("json.RawMessage")
		if raw == nil {
			se.fail("type json.RawMessage not found")
		}
		mt := types.NewMap(types.Typ[types.String], raw)
		sn := sortName(mt)
		id := c.App("jsonDecode_"+sn, sortOf(mt), e.seqTerm(se.st, sq))
		return e.fromTerm(raw, c.App("map_get_"+sn, sortOf(raw), id, key.T), "jsonmember")
	case "jsonhas":
		sq, ok := se.eval(n.Args[0]).(*SeqV)
		if !ok {
			se.fail("jsonhas(seq, name)")
		}
		key := se.scalar(se.eval(n.Args[1]), n)
		raw := e.lookupType("json.RawMessage")
		mt := types.NewMap(types.Typ[types.String], raw)
		sn := sortName(mt)
		id := c.App("jsonDecode_"+sn, sortOf(mt), e.seqTerm(se.st, sq))
		return boolV(c.App("map_has_"+sn, smt.Bool, id, key.T))
	case "mapget", "maphas":
		m, ok := se.eval(n.Args[0]).(*MapV)
		if !ok {
			se.fail("%s(map, key)", n.Fun)
		}
		key := se.scalar(se.eval(n.Args[1]), n)
		sn := sortName(m.Typ)
		if n.Fun == "maphas" {
			return boolV(c.App("map_has_"+sn, smt.Bool, m.ID, key.T))
		}
		vt := m.Typ.Elem()
		return e.fromTerm(vt, c.App("map_get_"+sn, sortOf(vt), m.ID, key.T), "mapget")
	case "call":
		// call("pkg.Func", args...): the result of a (pure) repository function
		str, ok := n.Args[0].(*SStr)
		if !ok {
			se.fail("call(\"pkg.Func\", args...)")
		}
		fn := e.lookupFunc(str.V)
		if fn == nil {
			se.fail("function %q not found", str.V)
		}
		var args []Value
		for _, a := range n.Args[1:] {
			args = append(args, se.eval(a))
		}
		tmp := se.st.clone()
		e.dry++
		res := e.inline(tmp, fn, nil, args, 0)
		e.dry--
		return res
	case "errhas":
		// errhas(err, "*pkg.Type"): errors.As(err, &target of that type) would succeed
		iv, ok := se.eval(n.Args[0]).(*IfaceV)
		str, ok2 := n.Args[1].(*SStr)
		if !ok || !ok2 {
			se.fail("errhas(err, \"type\")")
		}
		T := e.lookupType(str.V)
		if T == nil {
			se.fail("unknown type %q", str.V)
		}
		return boolV(e.errChainHas(iv, e.typeID(T)))
	case "strbytes":
		v := se.scalar(se.eval(n.Args[0]), n)
		sb := e.strBytes(v.T)
		return &SeqV{W: 8, Len: c.App("seq_len", smt.BV(64), sb), Read: func(i *smt.Term) *smt.Term {
			return c.App("seq_at8", smt.BV(8), sb, i)
		}}
	case "hexenc":
		sq, ok := se.eval(n.Args[0]).(*SeqV)
		if !ok {
			se.fail("hexenc of non-sequence")
		}
		return Scalar{T: e.hexEncode(se.st, sq), Typ: types.Typ[types.String]}
	case "fresh":
		return boolV(se.freshPred(se.eval(n.Args[0]), n))
	case "typeis":
		iv, ok := se.eval(n.Args[0]).(*IfaceV)
		str, ok2 := n.Args[1].(*SStr)
		if !ok || !ok2 {
			se.fail("typeis(iface, \"type\")")
		}
		T := e.lookupType(str.V)
		if T == nil {
			se.fail("unknown type %q", str.V)
		}
		return boolV(c.Eq(e.ifaceTag(iv), c.BVC(uint64(e.typeID(T)), 64)))
	case "as":
		iv, ok := se.eval(n.Args[0]).(*IfaceV)
		str, ok2 := n.Args[1].(*SStr)
		if !ok || !ok2 {
			se.fail("as(iface, \"type\")")
		}
		T := e.lookupType(str.V)
		if T == nil {
			se.fail("unknown type %q", str.V)
		}
		return e.ifacePayload(iv, T)
	case "ite":
		cond := se.evalBool(n.Args[0])
		a, b := se.eval(n.Args[1]), se.eval(n.Args[2])
		a, b = se.nilLike(a, b), se.nilLike(b, a)
		if ua, ok := a.(Untyped); ok {
			if ub, ok := b.(Untyped); ok {
				a = Scalar{T: bv64(c, ua.V), Typ: intTyp}
				b = Scalar{T: bv64(c, ub.V), Typ: intTyp}
			}
		}
		if ua, ok := a.(Untyped); ok {
			if sb, ok := b.(Scalar); ok && sb.T.Sort.IsBV() {
				a = Scalar{T: c.BVC(uint64(ua.V), sb.T.Sort.W), Typ: sb.Typ}
			}
		}
		if ub, ok := b.(Untyped); ok {
			if sa, ok := a.(Scalar); ok && sa.T.Sort.IsBV() {
				b = Scalar{T: c.BVC(uint64(ub.V), sa.T.Sort.W), Typ: sa.Typ}
			}
		}
		return e.merge(cond, a, b)
	case "addr":
		switch v := se.eval(n.Args[0]).(type) {
		case *PtrV:
			return Scalar{T: e.ptrAddr(v), Typ: nil}
		case *SliceV:
			return Scalar{T: e.sliceBaseAddr(v), Typ: nil}
		case *IfaceV:
			return Scalar{T: e.ifaceIdent(v), Typ: nil}
		case NilV:
			return Scalar{T: c.BVC(0, 64), Typ: nil}
		}
		se.fail("addr of non-pointer")
	}
	if m, ok := e.DB.Macros[n.Fun]; ok {
		if len(m.Params) != len(n.Args) {
			se.fail("macro %s expects %d arguments", m.Name, len(m.Params))
		}
		sub := se.sub()
		var argv []Value
		for i, p := range m.Params {
			v := se.eval(n.Args[i])
			argv = append(argv, v)
			sub.bound[p] = v
		}
		if m.Opaque && !e.revealed(m.Name) {
			var keys []*smt.Term
			ok := true
			for _, v := range argv {
				k := e.opaqueKey(v)
				if k == nil {
					ok = false
					break
				}
				keys = append(keys, k)
			}
			if ok {
				// memory-dependent arguments: the predicate is tied to the current
				// epoch of writes to pre-existing memory
				for _, v := range argv {
					switch v.(type) {
					case *PtrV, *SliceV, *StructV:
						keys = append(keys, c.BVC(uint64(e.preWrites), 64))
					}
				}
				name := "opq_" + m.Name
				for _, k := range keys {
					name += "_" + smt.Sanitize(k.Sort.String())
				}
				return boolV(c.App(name, smt.Bool, keys...))
			}
		}
		// macro bodies see only their parameters plus globals of the spec
		res := sub.eval(m.Body)
		if sq, ok := res.(*SeqV); ok && len(e.macroEqs) > 0 {
			var keys []int
			okKeys := true
			for _, v := range argv {
				k, ok := e.valueKey(v)
				if !ok {
					okKeys = false
					break
				}
				keys = append(keys, k)
			}
			if okKeys {
				for _, me := range e.macroEqs {
					if me.macro != n.Fun || len(me.keys) != len(keys) || me.epoch != e.preWrites {
						continue
					}
					same := true
					for i := range keys {
						if keys[i] != me.keys[i] {
							same = false
						}
					}
					if same {
						g, rhs, unf := me.guard, me.rhs, sq
						return &SeqV{W: unf.W, Len: c.Ite(g, rhs.Len, unf.Len), Read: func(i *smt.Term) *smt.Term {
							return c.Ite(g, rhs.Read(i), unf.Read(i))
						}}
					}
				}
			}
		}
		return res
	}
	if u, ok := e.DB.UFs[n.Fun]; ok {
		var args []*smt.Term
		for _, a := range n.Args {
			av := se.eval(a)
			if _, abs := av.(AbsentV); abs {
				return AbsentV{}
			}
			args = append(args, se.termOf(av, a))
		}
		retName, fixedLen := u.Ret, int64(-1)
		if i := strings.Index(retName, "["); i > 0 && strings.HasSuffix(retName, "]") {
			fmt.Sscanf(retName[i+1:len(retName)-1], "%d", &fixedLen)
			retName = retName[:i]
		}
		ret := parseSort(retName)
		t := c.App("spec_"+u.Name, ret, args...)
		if fixedLen >= 0 && ret == sortByteSeq {
			e.addAxioms(c.Eq(c.App("seq_len", smt.BV(64), t), bv64(c, fixedLen)))
			if e.fixedLen == nil {
				e.fixedLen = map[int]*smt.Term{}
			}
			e.fixedLen[t.ID] = bv64(c, fixedLen)
			return &SeqV{W: 8, Len: bv64(c, fixedLen), Read: func(i *smt.Term) *smt.Term { return c.App("seq_at8", smt.BV(8), t, i) }}
		}
		var T types.Type
		if ret.IsBool() {
			T = boolTyp
		}
		if ret.IsBV() {
			T = map[int]types.Type{8: types.Typ[types.Uint8], 16: types.Typ[types.Uint16], 32: types.Typ[types.Uint32], 64: types.Typ[types.Uint64]}[ret.W]
		}
		if ret == sortStr {
			T = types.Typ[types.String]
		}
		if ret == sortByteSeq {
			// a sequence-valued spec function
			ln := c.App("seq_len", smt.BV(64), t)
			return &SeqV{W: 8, Len: ln, Read: func(i *smt.Term) *smt.Term { return c.App("seq_at8", smt.BV(8), t, i) }}
		}
		return Scalar{T: t, Typ: T}
	}
	se.fail("unknown function %q", n.Fun)
	return nil
}

func parseSort(s string) smt.Sort {
	switch s {
	case "Bool", "bool":
		return smt.Bool
	case "Int":
		return refSort
	case "Str", "string":
		return sortStr
	case "ByteSeq":
		return sortByteSeq
	}
	if strings.HasPrefix(s, "BV") {
		var w int
		fmt.Sscanf(s, "BV%d", &w)
		return smt.BV(w)
	}
	return smt.U(s)
}

// termOf converts a spec value to a single term (for UF application).
func (se *specEnv) termOf(v Value, x SExpr) *smt.Term {
	e := se.e
	c := e.C
	switch s := v.(type) {
	case Scalar:
		return s.T
	case Untyped:
		return bv64(c, s.V)
	case *SeqV:
		return e.seqTerm(se.st, s)
	case *SliceV:
		return e.seqTerm(se.st, e.sliceSeq(se.st, s))
	case *PtrV:
		return e.ptrAddr(s)
	case *IfaceV:
		return e.ifaceIdent(s)
	case NilV:
		return c.BVC(uint64(0), 64)
	case *MapV:
		return s.ID
	}
	se.fail("cannot pass %T to an uninterpreted function in %s", v, exprString(x))
	return nil
}

// freshPred: the storage of v was allocated during the current call.
func (se *specEnv) freshPred(v Value, x SExpr) *smt.Term {
	e := se.e
	c := e.C
	switch s := v.(type) {
	case *SliceV:
		r := c.True()
		for _, al := range s.Alts {
			if al.Loc == nil {
				continue
			}
			r = c.And(r, c.Implies(al.Cond, e.objFresh(al.Loc.Obj)))
		}
		return r
	case *PtrV:
		r := c.True()
		for _, al := range s.Alts {
			if al.Loc == nil {
				continue
			}
			r = c.And(r, c.Implies(al.Cond, e.objFresh(al.Loc.Obj)))
		}
		return r
	}
	se.fail("fresh() of %T in %s", v, exprString(x))
	return nil
}

func (e *Exec) objFresh(o *Object) *smt.Term {
	if !o.Pre || o.Fresh {
		return e.C.True()
	}
	return e.C.App("is_fresh", smt.Bool, o.Addr)
}

func catSeq(c *smt.Ctx, parts []*SeqV) *SeqV {
	if len(parts) == 0 {
		return &SeqV{W: 8, Len: bv64(c, 0), Read: func(*smt.Term) *smt.Term { return c.BVC(0, 8) }}
	}
	if len(parts) == 1 {
		return parts[0]
	}
	// offsets
	offs := make([]*smt.Term, len(parts)+1)
	offs[0] = bv64(c, 0)
	for i, p := range parts {
		offs[i+1] = c.BVAdd(offs[i], p.Len)
	}
	return &SeqV{W: parts[0].W, Len: offs[len(parts)], Read: func(i *smt.Term) *smt.Term {
		res := parts[len(parts)-1].Read(c.BVSub(i, offs[len(parts)-1]))
		for k := len(parts) - 2; k >= 0; k-- {
			res = c.Ite(c.BVSlt(i, offs[k+1]), parts[k].Read(c.BVSub(i, offs[k])), res)
		}
		return res
	}}
}

func exprString(x SExpr) string {
	switch n := x.(type) {
	case *SIdent:
		return n.Name
	case *SInt:
		return fmt.Sprintf("%d", n.V)
	case *SStr:
		return fmt.Sprintf("%q", n.V)
	case *SBin:
		return "(" + exprString(n.L) + " " + n.Op + " " + exprString(n.R) + ")"
	case *SUn:
		return n.Op + exprString(n.X)
	case *SCall:
		var as []string
		for _, a := range n.Args {
			as = append(as, exprString(a))
		}
		return n.Fun + "(" + strings.Join(as, ", ") + ")"
	case *SIndex:
		return exprString(n.X) + "[" + exprString(n.I) + "]"
	case *SSlice:
		lo, hi := "", ""
		if n.Lo != nil {
			lo = exprString(n.Lo)
		}
		if n.Hi != nil {
			hi = exprString(n.Hi)
		}
		return exprString(n.X) + "[" + lo + ":" + hi + "]"
	case *SField:
		return exprString(n.X) + "." + n.Name
	case *SQuant:
		q := "exists"
		if n.Forall {
			q = "forall"
		}
		return q + " " + strings.Join(n.Vars, ", ") + " :: " + exprString(n.Body)
	}
	return "?"
}

func (db *SpecDB) isTraceName(n string) bool {
	for _, f := range db.Funcs {
		if f.Records == n {
			return true
		}
	}
	return false
}

// nilLike turns a spec nil into the nil value of the other operand's kind.
func (se *specEnv) nilLike(v, other Value) Value {
	if _, ok := v.(NilV); !ok {
		return v
	}
	c := se.e.C
	switch o := other.(type) {
	case *PtrV:
		return &PtrV{Elem: o.Elem, Alts: []PtrAlt{{Cond: c.True()}}}
	case *SliceV:
		return &SliceV{Elem: o.Elem, Len: bv64(c, 0), Cap: bv64(c, 0), Alts: []SliceAlt{{Cond: c.True()}}}
	case *IfaceV:
		return se.e.zero(o.Typ)
	}
	return v
}

// hexEncode models hex.EncodeToString: for sequences of a small constant
// length it is an uninterpreted function of the bytes themselves, otherwise of
// the named sequence.
func (e *Exec) hexEncode(st *State, sq *SeqV) *smt.Term {
	c := e.C
	if sq.Len.Op == "bv" && sq.Len.Val <= 8 {
		var bs []*smt.Term
		for i := uint64(0); i < sq.Len.Val; i++ {
			bs = append(bs, sq.Read(bv64(c, int64(i))))
		}
		if len(bs) == 0 {
			return e.strLit("")
		}
		t := c.App(fmt.Sprintf("hex_encode%d", len(bs)), sortStr, bs...)
		e.addAxioms(c.Eq(c.App("str_len", smt.BV(64), t), bv64(c, int64(2*len(bs)))))
		return t
	}
	// two hex digits per byte (lengths are below 2^31: no overflow)
	sqt := e.seqTerm(st, sq)
	t := c.App("hex_encode", sortStr, sqt)
	e.addAxioms(c.Eq(c.App("str_len", smt.BV(64), t), c.BVAdd(sq.Len, sq.Len)))
	return t
}

func (e *Exec) revealed(name string) bool {
	if e.RevealAll {
		return true
	}
	if e.extraReveal[name] {
		return true
	}
	if e.Spec == nil {
		return false
	}
	for _, r := range e.Spec.Reveal {
		if r == name {
			return true
		}
	}
	return false
}

// opaqueKey is the identity of a value as an argument of an opaque predicate
// (nil when the value has no stable identity).
func (e *Exec) opaqueKey(v Value) *smt.Term {
	c := e.C
	switch x := v.(type) {
	case Scalar:
		return x.T
	case Untyped:
		return bv64(c, x.V)
	case *StructV:
		return x.Origin
	case *SliceV:
		return c.App("slkey", refSort, e.sliceBaseAddr(x), x.Len)
	case *PtrV:
		return e.ptrAddr(x)
	}
	return nil
}

// AbsentV stands for an expression over a ghost call that never happened on
// this path; comparisons with it are unconstrained.
type AbsentV struct{}

func (AbsentV) isValue() {}

func (se *specEnv) absent(x SExpr) Value { return AbsentV{} }


// strBytes returns the byte sequence of a string term, with the axioms that
// tie it to indexing and length of the string.
func (e *Exec) strBytes(s *smt.Term) *smt.Term {
	c := e.C
	sb := c.App("str_bytes", sortByteSeq, s)
	ln := c.App("str_len", smt.BV(64), s)
	k := c.BoundVar("defk", smt.BV(64))
	e.addAxioms(
		c.Eq(c.App("seq_len", smt.BV(64), sb), ln),
		c.BVSle(bv64(c, 0), ln), c.BVSle(ln, c.BVC(maxLen, 64)),
		c.Forall([]*smt.Term{k}, c.Eq(c.App("seq_at8", smt.BV(8), sb, k), c.App("str_at", smt.BV(8), s, k))))
	return sb
}


func (se *specEnv) pristinePtr(pv *PtrV) *smt.Term {
	c := se.e.C
	res := c.True()
	for _, al := range pv.Alts {
		ok := al.Loc != nil && len(al.Loc.Path) == 0 && !al.Loc.Obj.Pre && al.Loc.Obj.zeroInit != nil && se.st.mem[al.Loc.Obj] == al.Loc.Obj.zeroInit
		if !ok {
			res = c.And(res, c.Not(al.Cond))
		}
	}
	return res
}
