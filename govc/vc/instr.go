package vc

import (
	"fmt"
	"go/constant"
	"go/token"
	"go/types"

	"govc/smt"

	"golang.org/x/tools/go/ssa"
)

// eval returns the symbolic value of an SSA value in state st.
func (e *Exec) eval(st *State, v ssa.Value) Value {
	switch x := v.(type) {
	case *ssa.Const:
		return e.constant(x)
	case *ssa.Global:
		return &PtrV{Elem: derefType(x.Type()), Alts: []PtrAlt{{Cond: e.C.True(), Loc: &Loc{Obj: e.globalObj(x)}}}}
	case *ssa.Function:
		return &FuncV{Fn: x}
	case *ssa.Builtin:
		e.refuse("builtin %s used as a value", x.Name())
	}
	if r, ok := st.env[v]; ok {
		return r
	}
	e.refuse("value %s (%T) not in environment (function %s)", v.Name(), v, e.curFn())
	return nil
}

func (e *Exec) globalObj(g *ssa.Global) *Object {
	if o, ok := e.globals[g]; ok {
		return o
	}
	e.objs++
	name := g.Pkg.Pkg.Name() + "." + g.Name()
	o := &Object{ID: e.objs, Pre: true, Addr: e.C.Sym("ga_"+smt.Sanitize(name), refSort), Typ: derefType(g.Type()), Name: name, Glob: g}
	e.addAxioms(e.C.BVSlt(e.C.BVC(uint64(0), 64), o.Addr))
	e.globals[g] = o
	return o
}

func (e *Exec) constant(k *ssa.Const) Value {
	c := e.C
	T := k.Type()
	if k.Value == nil {
		return e.zero(T)
	}
	if _, ok := abstractSort(T); ok {
		e.refuse("constant of abstract type %v", T)
	}
	switch u := T.Underlying().(type) {
	case *types.Basic:
		if w, _, ok := intInfo(u); ok {
			var val uint64
			cv := constant.ToInt(k.Value)
			if i, exact := constant.Int64Val(cv); exact {
				val = uint64(i)
			} else if u, exact := constant.Uint64Val(cv); exact {
				val = u
			} else {
				e.refuse("integer constant out of range: %v", k.Value)
			}
			return Scalar{T: c.BVC(val, w), Typ: T}
		}
		switch u.Kind() {
		case types.Bool, types.UntypedBool:
			return Scalar{T: c.BoolC(constant.BoolVal(k.Value)), Typ: T}
		case types.String, types.UntypedString:
			return Scalar{T: e.strLit(constant.StringVal(k.Value)), Typ: T}
		case types.Float32, types.Float64, types.UntypedFloat:
			return Scalar{T: c.Lit("f_"+smt.Sanitize(k.Value.ExactString()), sortFloat), Typ: T}
		}
	}
	e.refuse("unsupported constant %v of type %v", k.Value, T)
	return nil
}

func (e *Exec) scalar(st *State, v ssa.Value) *smt.Term {
	x := e.eval(st, v)
	s, ok := x.(Scalar)
	if !ok {
		e.refuse("expected scalar for %s, got %T", v.Name(), x)
	}
	return s.T
}

// toBV64 converts an index-like value to a signed 64-bit term.
func (e *Exec) toIndex(st *State, v ssa.Value) *smt.Term {
	t := e.scalar(st, v)
	w, signed, ok := intInfo(v.Type())
	if !ok {
		e.refuse("index of non-integer type %v", v.Type())
	}
	if w == 64 {
		return t
	}
	if signed {
		return e.C.SExt(t, 64)
	}
	return e.C.ZExt(t, 64)
}

func bv64(c *smt.Ctx, n int64) *smt.Term { return c.BVC(uint64(n), 64) }

// step executes one non-control instruction.
func (e *Exec) step(st *State, ins ssa.Instruction) {
	c := e.C
	switch x := ins.(type) {
	case *ssa.DebugRef:
		return
	case *ssa.Alloc:
		T := derefType(x.Type())
		name := x.Comment
		if name == "" {
			name = x.Name()
		}
		o := e.newLocal(T, name)
		o.zeroInit = e.zero(T)
		st.mem[o] = o.zeroInit
		st.env[x] = &PtrV{Elem: T, Alts: []PtrAlt{{Cond: c.True(), Loc: &Loc{Obj: o}}}}
	case *ssa.UnOp:
		st.env[x] = e.unop(st, x)
	case *ssa.BinOp:
		st.env[x] = e.binop(st, x)
	case *ssa.Store:
		p, ok := e.eval(st, x.Addr).(*PtrV)
		if !ok {
			e.refuse("store through non-pointer")
		}
		e.store(st, p, e.eval(st, x.Val), "*"+x.Addr.Name(), x.Pos())
	case *ssa.FieldAddr:
		p, ok := e.eval(st, x.X).(*PtrV)
		if !ok {
			e.refuse("FieldAddr on non-pointer")
		}
		sT := derefType(x.X.Type()).Underlying().(*types.Struct)
		fname := sT.Field(x.Field).Name()
		e.nilCheck(st, p, exprLabel(e, x.X, x.Pos())+"."+fname, x.Pos())
		r := &PtrV{Elem: sT.Field(x.Field).Type()}
		for _, al := range p.Alts {
			if al.Loc == nil {
				continue
			}
			nl := &Loc{Obj: al.Loc.Obj, Path: append(append([]PathElem{}, al.Loc.Path...), PathElem{Field: x.Field})}
			r.Alts = append(r.Alts, PtrAlt{Cond: al.Cond, Loc: nl})
		}
		if len(r.Alts) == 1 {
			r.Alts[0].Cond = c.True()
		}
		st.env[x] = r
	case *ssa.Field:
		if sc, ok := e.eval(st, x.X).(Scalar); ok && sc.Typ != nil {
			st.env[x] = e.projectField(sc, x.Field)
			return
		}
		s, ok := e.eval(st, x.X).(*StructV)
		if !ok {
			e.refuse("Field on non-struct %T", e.eval(st, x.X))
		}
		st.env[x] = s.Field(x.Field)
	case *ssa.IndexAddr:
		st.env[x] = e.indexAddr(st, x)
	case *ssa.Index:
		idx := e.toIndex(st, x.Index)
		switch a := e.eval(st, x.X).(type) {
		case *ArrV:
			e.oblige(st, "bounds", exprLabel(e, x, x.Pos()), c.And(c.BVSle(bv64(c, 0), idx), c.BVSlt(idx, bv64(c, a.N))), x.Pos())
			st.env[x] = a.Read(idx)
		case Scalar: // string index
			ln := c.App("str_len", smt.BV(64), a.T)
			e.oblige(st, "bounds", exprLabel(e, x, x.Pos()), c.And(c.BVSle(bv64(c, 0), idx), c.BVSlt(idx, ln)), x.Pos())
			st.env[x] = Scalar{T: c.App("str_at", smt.BV(8), a.T, idx), Typ: x.Type()}
		default:
			e.refuse("Index on %T", a)
		}
	case *ssa.Slice:
		st.env[x] = e.sliceOp(st, x)
	case *ssa.MakeSlice:
		ln := e.toIndex(st, x.Len)
		cp := e.toIndex(st, x.Cap)
		z := bv64(c, 0)
		e.oblige(st, "conv", "make("+exprLabel(e, x, x.Pos())+")", c.And(c.BVSle(z, ln), c.BVSle(ln, cp), c.BVSle(cp, c.BVC(1<<48, 64))), x.Pos())
		elem := x.Type().Underlying().(*types.Slice).Elem()
		o := e.newLocal(mkRegionType(elem), x.Name())
		zv := e.zero(elem)
		st.mem[o] = &ArrV{Elem: elem, N: -1, Read: func(*smt.Term) Value { return zv }}
		st.env[x] = &SliceV{Elem: elem, Len: ln, Cap: cp, Alts: []SliceAlt{{Cond: c.True(), Loc: &Loc{Obj: o}, Off: z}}}
	case *ssa.MakeInterface:
		v := e.eval(st, x.X)
		T := x.X.Type()
		st.env[x] = &IfaceV{Typ: x.Type(), Alts: []IfaceAlt{{Cond: c.True(), Tag: c.BVC(uint64(e.typeID(T)), 64), Typ: T, Val: v}}}
	case *ssa.ChangeInterface:
		st.env[x] = e.eval(st, x.X)
	case *ssa.ChangeType:
		st.env[x] = e.retype(e.eval(st, x.X), x.Type())
	case *ssa.Convert:
		st.env[x] = e.convert(st, x)
	case *ssa.TypeAssert:
		st.env[x] = e.typeAssert(st, x)
	case *ssa.Extract:
		t, ok := e.eval(st, x.Tuple).(*TupleV)
		if !ok {
			e.refuse("Extract from non-tuple")
		}
		st.env[x] = t.Vs[x.Index]
	case *ssa.Call:
		res := e.call(st, &x.Call, x, x.Pos())
		st.env[x] = res
	case *ssa.MakeClosure:
		fv := &FuncV{Fn: x.Fn.(*ssa.Function)}
		for _, b := range x.Bindings {
			fv.Bindings = append(fv.Bindings, e.eval(st, b))
		}
		st.env[x] = fv
	case *ssa.Lookup:
		st.env[x] = e.lookup(st, x)
	case *ssa.MakeMap:
		st.env[x] = &MapV{ID: c.Fresh("map", refSort), Typ: x.Type().Underlying().(*types.Map)}
	case *ssa.MapUpdate:
		e.refuse("map update not supported")
	case *ssa.SliceToArrayPointer:
		e.refuse("slice to array pointer conversion not supported")
	case *ssa.Defer:
		fr := e.frames[len(e.frames)-1]
		d := deferred{call: &x.Call}
		for _, a := range x.Call.Args {
			d.args = append(d.args, e.eval(st, a))
		}
		if !x.Call.IsInvoke() {
			if _, isB := x.Call.Value.(*ssa.Builtin); !isB {
				d.fn = e.eval(st, x.Call.Value)
			}
		}
		fr.deferSt = append(fr.deferSt, d)
	case *ssa.RunDefers:
		fr := e.frames[len(e.frames)-1]
		for i := len(fr.deferSt) - 1; i >= 0; i-- {
			d := fr.deferSt[i]
			e.callValues(st, d.call, d.fn, d.args, nil, x.Pos())
		}
	case *ssa.Go:
		e.refuse("go statement not supported")
	case *ssa.Send:
		e.refuse("channel send not supported")
	case *ssa.Select:
		st.env[x] = e.selectOp(st, x)
	case *ssa.Range, *ssa.Next:
		e.refuse("range over map/string not supported")
	case *ssa.MakeChan:
		e.refuse("make(chan) not supported")
	default:
		e.refuse("unsupported instruction %T", ins)
	}
}

// exprLabel gives a stable, source-like label for an instruction's expression.
func exprLabel(e *Exec, v ssa.Value, pos token.Pos) string {
	return srcText(e, v, 0)
}

func srcText(e *Exec, v ssa.Value, depth int) string {
	if depth > 6 {
		return "…"
	}
	switch x := v.(type) {
	case *ssa.Parameter:
		return x.Name()
	case *ssa.Const:
		if x.Value == nil {
			return "nil"
		}
		return x.Value.ExactString()
	case *ssa.Global:
		return x.Name()
	case *ssa.FieldAddr:
		sT := derefType(x.X.Type()).Underlying().(*types.Struct)
		return srcText(e, x.X, depth+1) + "." + sT.Field(x.Field).Name()
	case *ssa.Field:
		sT := x.X.Type().Underlying().(*types.Struct)
		return srcText(e, x.X, depth+1) + "." + sT.Field(x.Field).Name()
	case *ssa.IndexAddr:
		return srcText(e, x.X, depth+1) + "[" + srcText(e, x.Index, depth+1) + "]"
	case *ssa.Index:
		return srcText(e, x.X, depth+1) + "[" + srcText(e, x.Index, depth+1) + "]"
	case *ssa.Slice:
		lo, hi := "", ""
		if x.Low != nil {
			lo = srcText(e, x.Low, depth+1)
		}
		if x.High != nil {
			hi = srcText(e, x.High, depth+1)
		}
		return srcText(e, x.X, depth+1) + "[" + lo + ":" + hi + "]"
	case *ssa.UnOp:
		if x.Op == token.MUL {
			if a, ok := x.X.(*ssa.Alloc); ok && a.Comment != "" {
				return a.Comment
			}
			if fa, ok := x.X.(*ssa.FieldAddr); ok {
				return srcText(e, fa, depth+1)
			}
			if ia, ok := x.X.(*ssa.IndexAddr); ok {
				return srcText(e, ia, depth+1)
			}
			return "*" + srcText(e, x.X, depth+1)
		}
		return x.Op.String() + srcText(e, x.X, depth+1)
	case *ssa.Alloc:
		if x.Comment != "" {
			return x.Comment
		}
		return x.Name()
	case *ssa.Phi:
		if x.Comment != "" {
			return x.Comment
		}
		return x.Name()
	case *ssa.Call:
		if x.Call.IsInvoke() {
			return srcText(e, x.Call.Value, depth+1) + "." + x.Call.Method.Name() + "()"
		}
		if f := x.Call.StaticCallee(); f != nil {
			if f.Signature.Recv() != nil && len(x.Call.Args) > 0 {
				return srcText(e, x.Call.Args[0], depth+1) + "." + f.Name() + "()"
			}
			return f.Name() + "()"
		}
		if b, ok := x.Call.Value.(*ssa.Builtin); ok {
			if len(x.Call.Args) > 0 {
				return b.Name() + "(" + srcText(e, x.Call.Args[0], depth+1) + ")"
			}
			return b.Name() + "()"
		}
		return "call"
	case *ssa.BinOp:
		return srcText(e, x.X, depth+1) + x.Op.String() + srcText(e, x.Y, depth+1)
	case *ssa.Convert:
		return srcText(e, x.X, depth+1)
	case *ssa.ChangeType:
		return srcText(e, x.X, depth+1)
	case *ssa.Extract:
		return srcText(e, x.Tuple, depth+1) + fmt.Sprintf("#%d", x.Index)
	case *ssa.MakeSlice:
		return "make"
	case *ssa.FreeVar:
		return x.Name()
	case *ssa.TypeAssert:
		return srcText(e, x.X, depth+1) + ".(" + types.TypeString(x.AssertedType, func(p *types.Package) string { return p.Name() }) + ")"
	}
	return v.Name()
}

func (e *Exec) retype(v Value, T types.Type) Value {
	switch x := v.(type) {
	case Scalar:
		return Scalar{T: x.T, Typ: T}
	case *PtrV:
		if p, ok := T.Underlying().(*types.Pointer); ok {
			return &PtrV{Alts: x.Alts, Elem: p.Elem()}
		}
	case *SliceV:
		if s, ok := T.Underlying().(*types.Slice); ok {
			return &SliceV{Alts: x.Alts, Len: x.Len, Cap: x.Cap, Elem: s.Elem()}
		}
	}
	return v
}

func (e *Exec) unop(st *State, x *ssa.UnOp) Value {
	c := e.C
	switch x.Op {
	case token.MUL:
		p, ok := e.eval(st, x.X).(*PtrV)
		if !ok {
			e.refuse("load through non-pointer %T", e.eval(st, x.X))
		}
		return e.load(st, p, exprLabel(e, x, x.Pos()), x.Pos())
	case token.NOT:
		return Scalar{T: c.Not(e.scalar(st, x.X)), Typ: x.Type()}
	case token.SUB:
		return Scalar{T: c.BVNeg(e.scalar(st, x.X)), Typ: x.Type()}
	case token.XOR:
		return Scalar{T: c.BVNot(e.scalar(st, x.X)), Typ: x.Type()}
	case token.ARROW:
		e.refuse("channel receive not supported")
	}
	e.refuse("unsupported unary op %v", x.Op)
	return nil
}

func (e *Exec) binop(st *State, x *ssa.BinOp) Value {
	a := e.eval(st, x.X)
	b := e.eval(st, x.Y)
	return e.binopV(st, x.Op, a, b, x.X.Type(), x.Y.Type(), x.Type(), exprLabel(e, x, x.Pos()), x.Pos())
}

func (e *Exec) binopV(st *State, op token.Token, a, b Value, ta, tb, tr types.Type, label string, pos token.Pos) Value {
	c := e.C
	if op == token.EQL || op == token.NEQ {
		eq := e.valuesEqual(st, a, b)
		if op == token.NEQ {
			eq = c.Not(eq)
		}
		return Scalar{T: eq, Typ: tr}
	}
	sa, ok1 := a.(Scalar)
	sb, ok2 := b.(Scalar)
	if !ok1 || !ok2 {
		e.refuse("binary op %v on %T, %T", op, a, b)
	}
	x, y := sa.T, sb.T
	if x.Sort.IsBool() {
		switch op {
		case token.LAND, token.AND:
			return Scalar{T: c.And(x, y), Typ: tr}
		case token.LOR, token.OR:
			return Scalar{T: c.Or(x, y), Typ: tr}
		}
	}
	if x.Sort == sortStr {
		switch op {
		case token.ADD:
			return Scalar{T: c.App("str_cat", sortStr, x, y), Typ: tr}
		case token.LSS, token.LEQ, token.GTR, token.GEQ:
			lt := c.App("str_lt", smt.Bool, x, y)
			gt := c.App("str_lt", smt.Bool, y, x)
			switch op {
			case token.LSS:
				return Scalar{T: lt, Typ: tr}
			case token.GTR:
				return Scalar{T: gt, Typ: tr}
			case token.LEQ:
				return Scalar{T: c.Not(gt), Typ: tr}
			default:
				return Scalar{T: c.Not(lt), Typ: tr}
			}
		}
		e.refuse("string op %v", op)
	}
	if _, ok := abstractSort(ta); ok || x.Sort == sortFloat {
		e.refuse("operator %v on abstract/float values", op)
	}
	w, signed, ok := intInfo(ta)
	if !ok {
		e.refuse("binary op %v on type %v", op, ta)
	}
	_ = w
	switch op {
	case token.ADD:
		return Scalar{T: c.BVAdd(x, y), Typ: tr}
	case token.SUB:
		return Scalar{T: c.BVSub(x, y), Typ: tr}
	case token.MUL:
		return Scalar{T: c.BVMul(x, y), Typ: tr}
	case token.QUO, token.REM:
		e.oblige(st, "div", label, c.Neq(y, c.BVC(0, w)), pos)
		if signed {
			if op == token.QUO {
				return Scalar{T: c.BVSDiv(x, y), Typ: tr}
			}
			return Scalar{T: c.BVSRem(x, y), Typ: tr}
		}
		if op == token.QUO {
			return Scalar{T: c.BVUDiv(x, y), Typ: tr}
		}
		return Scalar{T: c.BVURem(x, y), Typ: tr}
	case token.AND:
		return Scalar{T: c.BVAnd(x, y), Typ: tr}
	case token.OR:
		return Scalar{T: c.BVOr(x, y), Typ: tr}
	case token.XOR:
		return Scalar{T: c.BVXor(x, y), Typ: tr}
	case token.AND_NOT:
		return Scalar{T: c.BVAnd(x, c.BVNot(y)), Typ: tr}
	case token.SHL, token.SHR:
		// shift count: any integer type; negative signed count panics
		wy, sy, _ := intInfo(tb)
		if sy {
			e.oblige(st, "conv", "shift "+label, c.BVSle(c.BVC(0, wy), y), pos)
		}
		var cnt *smt.Term
		if wy > w {
			// saturate
			big := c.BVUle(c.BVC(uint64(w), wy), y)
			cnt = c.Ite(big, c.BVC(uint64(w), w), c.Extract(w-1, 0, y))
		} else {
			cnt = c.ZExt(y, w)
		}
		if op == token.SHL {
			return Scalar{T: c.BVShl(x, cnt), Typ: tr}
		}
		if signed {
			return Scalar{T: c.BVAshr(x, cnt), Typ: tr}
		}
		return Scalar{T: c.BVLshr(x, cnt), Typ: tr}
	case token.LSS:
		if signed {
			return Scalar{T: c.BVSlt(x, y), Typ: tr}
		}
		return Scalar{T: c.BVUlt(x, y), Typ: tr}
	case token.LEQ:
		if signed {
			return Scalar{T: c.BVSle(x, y), Typ: tr}
		}
		return Scalar{T: c.BVUle(x, y), Typ: tr}
	case token.GTR:
		if signed {
			return Scalar{T: c.BVSlt(y, x), Typ: tr}
		}
		return Scalar{T: c.BVUlt(y, x), Typ: tr}
	case token.GEQ:
		if signed {
			return Scalar{T: c.BVSle(y, x), Typ: tr}
		}
		return Scalar{T: c.BVUle(y, x), Typ: tr}
	}
	e.refuse("unsupported binary op %v", op)
	return nil
}

// ifaceNil returns the condition that an interface value is nil.
func (e *Exec) ifaceNil(v *IfaceV) *smt.Term {
	c := e.C
	r := c.False()
	for _, al := range v.Alts {
		r = c.Or(r, c.And(al.Cond, c.Eq(al.Tag, c.BVC(uint64(0), 64))))
	}
	return r
}

func (e *Exec) ifaceTag(v *IfaceV) *smt.Term {
	var res *smt.Term
	for i := len(v.Alts) - 1; i >= 0; i-- {
		if res == nil {
			res = v.Alts[i].Tag
		} else {
			res = e.C.Ite(v.Alts[i].Cond, v.Alts[i].Tag, res)
		}
	}
	if res == nil {
		return e.C.BVC(uint64(0), 64)
	}
	return res
}

// ifaceIdent is an identity term for an interface value (for ==).
func (e *Exec) ifaceIdent(v *IfaceV) *smt.Term {
	c := e.C
	var res *smt.Term
	for i := len(v.Alts) - 1; i >= 0; i-- {
		al := v.Alts[i]
		var id *smt.Term
		switch {
		case al.Opaque != nil:
			id = c.App("if_ident", refSort, al.Opaque)
		case al.Typ == nil:
			id = c.BVC(uint64(0), 64)
		default:
			switch pv := al.Val.(type) {
			case *PtrV:
				id = e.ptrAddr(pv)
			default:
				id = c.Fresh("ifident", refSort)
			}
		}
		if res == nil {
			res = id
		} else {
			res = c.Ite(al.Cond, id, res)
		}
	}
	if res == nil {
		return c.BVC(uint64(0), 64)
	}
	return res
}

func (e *Exec) valuesEqual(st *State, a, b Value) *smt.Term {
	c := e.C
	switch x := a.(type) {
	case Scalar:
		y, ok := b.(Scalar)
		if !ok {
			break
		}
		if x.T.Sort != y.T.Sort {
			e.refuse("== on different sorts %v / %v", x.T.Sort, y.T.Sort)
		}
		return c.Eq(x.T, y.T)
	case *PtrV:
		y, ok := b.(*PtrV)
		if !ok {
			break
		}
		if len(y.Alts) == 1 && y.Alts[0].Loc == nil {
			return e.nilCond(x)
		}
		if len(x.Alts) == 1 && x.Alts[0].Loc == nil {
			return e.nilCond(y)
		}
		return c.Eq(e.ptrAddr(x), e.ptrAddr(y))
	case *SliceV:
		y, ok := b.(*SliceV)
		if !ok {
			break
		}
		// only comparison with nil is legal Go
		if len(y.Alts) == 1 && y.Alts[0].Loc == nil {
			return e.sliceNil(x)
		}
		if len(x.Alts) == 1 && x.Alts[0].Loc == nil {
			return e.sliceNil(y)
		}
		e.refuse("slice == slice")
	case *IfaceV:
		y, ok := b.(*IfaceV)
		if !ok {
			break
		}
		if len(y.Alts) == 1 && y.Alts[0].Typ == nil && y.Alts[0].Opaque == nil {
			return e.ifaceNil(x)
		}
		if len(x.Alts) == 1 && x.Alts[0].Typ == nil && x.Alts[0].Opaque == nil {
			return e.ifaceNil(y)
		}
		return c.And(c.Eq(e.ifaceTag(x), e.ifaceTag(y)), c.Eq(e.ifaceIdent(x), e.ifaceIdent(y)))
	case *MapV:
		y, ok := b.(*MapV)
		if !ok {
			break
		}
		return c.Eq(x.ID, y.ID)
	case *FuncV:
		y, ok := b.(*FuncV)
		if !ok {
			break
		}
		xn := x.Fn == nil && x.ID != nil
		yn := y.Fn == nil && y.ID != nil
		if xn && yn {
			return c.Eq(x.ID, y.ID)
		}
		if x.Fn != nil && yn {
			return c.Eq(c.BVC(^uint64(0), 64), y.ID)
		}
		if y.Fn != nil && xn {
			return c.Eq(c.BVC(^uint64(0), 64), x.ID)
		}
		e.refuse("func == func")
	case *StructV:
		y, ok := b.(*StructV)
		if !ok {
			break
		}
		r := c.True()
		for i := 0; i < x.T.NumFields(); i++ {
			r = c.And(r, e.valuesEqual(st, x.Field(i), y.Field(i)))
		}
		return r
	case *ArrV:
		y, ok := b.(*ArrV)
		if !ok {
			break
		}
		if x.N >= 0 && x.N <= 64 {
			r := c.True()
			for i := int64(0); i < x.N; i++ {
				r = c.And(r, e.valuesEqual(st, x.Read(bv64(c, i)), y.Read(bv64(c, i))))
			}
			return r
		}
		k := c.BoundVar("k", smt.BV(64))
		body := c.Implies(c.And(c.BVSle(bv64(c, 0), k), c.BVSlt(k, bv64(c, x.N))), e.valuesEqual(st, x.Read(k), y.Read(k)))
		return c.Forall([]*smt.Term{k}, body)
	}
	e.refuse("equality on %T / %T", a, b)
	return nil
}

func (e *Exec) indexAddr(st *State, x *ssa.IndexAddr) Value {
	c := e.C
	idx := e.toIndex(st, x.Index)
	z := bv64(c, 0)
	switch base := e.eval(st, x.X).(type) {
	case *SliceV:
		e.oblige(st, "bounds", exprLabel(e, x, x.Pos()), c.And(c.BVSle(z, idx), c.BVSlt(idx, base.Len)), x.Pos())
		r := &PtrV{Elem: base.Elem}
		for _, al := range base.Alts {
			if al.Loc == nil {
				continue
			}
			nl := &Loc{Obj: al.Loc.Obj, Path: append(append([]PathElem{}, al.Loc.Path...), PathElem{Idx: c.BVAdd(al.Off, idx)})}
			r.Alts = append(r.Alts, PtrAlt{Cond: al.Cond, Loc: nl})
		}
		if len(r.Alts) == 1 {
			r.Alts[0].Cond = c.True()
		}
		if len(r.Alts) == 0 {
			r.Alts = []PtrAlt{{Cond: c.True()}}
		}
		return r
	case *PtrV: // pointer to array
		arrT := derefType(x.X.Type()).Underlying().(*types.Array)
		e.nilCheck(st, base, exprLabel(e, x, x.Pos()), x.Pos())
		e.oblige(st, "bounds", exprLabel(e, x, x.Pos()), c.And(c.BVSle(z, idx), c.BVSlt(idx, bv64(c, arrT.Len()))), x.Pos())
		r := &PtrV{Elem: arrT.Elem()}
		for _, al := range base.Alts {
			if al.Loc == nil {
				continue
			}
			nl := &Loc{Obj: al.Loc.Obj, Path: append(append([]PathElem{}, al.Loc.Path...), PathElem{Idx: idx})}
			r.Alts = append(r.Alts, PtrAlt{Cond: al.Cond, Loc: nl})
		}
		if len(r.Alts) == 1 {
			r.Alts[0].Cond = c.True()
		}
		return r
	}
	e.refuse("IndexAddr on %T", e.eval(st, x.X))
	return nil
}

func (e *Exec) sliceOp(st *State, x *ssa.Slice) Value {
	c := e.C
	z := bv64(c, 0)
	var lo, hi, mx *smt.Term
	if x.Low != nil {
		lo = e.toIndex(st, x.Low)
	} else {
		lo = z
	}
	label := exprLabel(e, x, x.Pos())
	switch base := e.eval(st, x.X).(type) {
	case *SliceV:
		if x.High != nil {
			hi = e.toIndex(st, x.High)
		} else {
			hi = base.Len
		}
		if x.Max != nil {
			mx = e.toIndex(st, x.Max)
		} else {
			mx = base.Cap
		}
		goal := c.And(c.BVSle(z, lo), c.BVSle(lo, hi), c.BVSle(hi, mx), c.BVSle(mx, base.Cap))
		e.oblige(st, "bounds", label, goal, x.Pos())
		r := &SliceV{Elem: base.Elem, Len: c.BVSub(hi, lo), Cap: c.BVSub(mx, lo)}
		for _, al := range base.Alts {
			if al.Loc == nil {
				r.Alts = append(r.Alts, al)
				continue
			}
			r.Alts = append(r.Alts, SliceAlt{Cond: al.Cond, Loc: al.Loc, Off: c.BVAdd(al.Off, lo)})
		}
		return r
	case *PtrV: // pointer to array
		arrT := derefType(x.X.Type()).Underlying().(*types.Array)
		n := bv64(c, arrT.Len())
		if x.High != nil {
			hi = e.toIndex(st, x.High)
		} else {
			hi = n
		}
		if x.Max != nil {
			mx = e.toIndex(st, x.Max)
		} else {
			mx = n
		}
		e.nilCheck(st, base, label, x.Pos())
		goal := c.And(c.BVSle(z, lo), c.BVSle(lo, hi), c.BVSle(hi, mx), c.BVSle(mx, n))
		e.oblige(st, "bounds", label, goal, x.Pos())
		r := &SliceV{Elem: arrT.Elem(), Len: c.BVSub(hi, lo), Cap: c.BVSub(mx, lo)}
		for _, al := range base.Alts {
			if al.Loc == nil {
				continue
			}
			r.Alts = append(r.Alts, SliceAlt{Cond: al.Cond, Loc: al.Loc, Off: lo})
		}
		if len(r.Alts) == 1 {
			r.Alts[0].Cond = c.True()
		}
		return r
	case Scalar: // string slicing
		ln := c.App("str_len", smt.BV(64), base.T)
		if x.High != nil {
			hi = e.toIndex(st, x.High)
		} else {
			hi = ln
		}
		e.oblige(st, "bounds", label, c.And(c.BVSle(z, lo), c.BVSle(lo, hi), c.BVSle(hi, ln)), x.Pos())
		r := c.App("str_sub", sortStr, base.T, lo, hi)
		e.assume(st, c.Eq(c.App("str_len", smt.BV(64), r), c.BVSub(hi, lo)))
		return Scalar{T: r, Typ: x.Type()}
	}
	e.refuse("Slice on %T", e.eval(st, x.X))
	return nil
}

func (e *Exec) convert(st *State, x *ssa.Convert) Value {
	c := e.C
	from, to := x.X.Type(), x.Type()
	v := e.eval(st, x.X)
	wf, sf, okf := intInfo(from)
	wt, _, okt := intInfo(to)
	if okf && okt {
		t := v.(Scalar).T
		switch {
		case wt == wf:
			return Scalar{T: t, Typ: to}
		case wt < wf:
			return Scalar{T: c.Extract(wt-1, 0, t), Typ: to}
		case sf:
			return Scalar{T: c.SExt(t, wt), Typ: to}
		default:
			return Scalar{T: c.ZExt(t, wt), Typ: to}
		}
	}
	fu, tu := from.Underlying(), to.Underlying()
	// string <-> []byte
	if fb, ok := fu.(*types.Basic); ok && fb.Info()&types.IsString != 0 {
		if ts, ok := tu.(*types.Slice); ok {
			if w, _, ok := intInfo(ts.Elem()); ok && w == 8 {
				// the bytes of a string are the sequence str_bytes(s); the slice is
				// a view of that term, so seq([]byte(s)) is the term itself
				s := v.(Scalar).T
				sb := e.strBytes(s)
				ln := c.App("seq_len", smt.BV(64), sb)
				o := e.newLocal(mkRegionType(ts.Elem()), "bytes("+x.X.Name()+")")
				el := ts.Elem()
				st.mem[o] = &ArrV{Elem: el, N: -1, Read: func(i *smt.Term) Value {
					return Scalar{T: c.App("seq_at8", smt.BV(8), sb, i), Typ: el}
				}}
				return &SliceV{Elem: el, Len: ln, Cap: ln, Alts: []SliceAlt{{Cond: c.True(), Loc: &Loc{Obj: o}, Off: bv64(c, 0)}}}
			}
		}
		if tb, ok := tu.(*types.Basic); ok && tb.Info()&types.IsString != 0 {
			return Scalar{T: v.(Scalar).T, Typ: to}
		}
	}
	if fs, ok := fu.(*types.Slice); ok {
		if tb, ok := tu.(*types.Basic); ok && tb.Info()&types.IsString != 0 {
			if w, _, ok := intInfo(fs.Elem()); ok && w == 8 {
				sv := v.(*SliceV)
				seq := e.sliceSeq(st, sv)
				str := c.App("str_of", sortStr, e.seqTerm(st, seq))
				e.assume(st, c.Eq(c.App("str_len", smt.BV(64), str), sv.Len))
				return Scalar{T: str, Typ: to}
			}
		}
	}
	// integer -> string, float conversions etc.
	if okf {
		if tb, ok := tu.(*types.Basic); ok && tb.Info()&types.IsFloat != 0 {
			return Scalar{T: c.App(fmt.Sprintf("float_of_bv%d", wf), sortFloat, v.(Scalar).T), Typ: to}
		}
	}
	if _, ok := tu.(*types.Pointer); ok {
		if fb, ok := fu.(*types.Basic); ok && fb.Kind() == types.UnsafePointer {
			e.refuse("unsafe.Pointer conversion")
		}
	}
	if fb, ok := fu.(*types.Basic); ok && fb.Kind() == types.UnsafePointer {
		e.refuse("unsafe.Pointer conversion")
	}
	if tb, ok := tu.(*types.Basic); ok && tb.Kind() == types.UnsafePointer {
		e.refuse("unsafe.Pointer conversion")
	}
	e.refuse("unsupported conversion %v -> %v", from, to)
	return nil
}

func (e *Exec) typeAssert(st *State, x *ssa.TypeAssert) Value {
	c := e.C
	iv, ok := e.eval(st, x.X).(*IfaceV)
	if !ok {
		e.refuse("TypeAssert on %T", e.eval(st, x.X))
	}
	T := x.AssertedType
	if isInterface(T) {
		// interface-to-interface assertion: succeeds iff dynamic type implements T
		okc := c.False()
		for _, al := range iv.Alts {
			var ac *smt.Term
			switch {
			case al.Typ != nil:
				ac = c.BoolC(types.Implements(al.Typ, T.Underlying().(*types.Interface)))
			case al.Opaque != nil:
				if types.Identical(iv.Typ, T) || types.AssignableTo(iv.Typ, T) {
					ac = c.Neq(al.Tag, c.BVC(uint64(0), 64))
				} else {
					ac = c.And(c.Neq(al.Tag, c.BVC(uint64(0), 64)), c.App("implements_"+sortName(T), smt.Bool, al.Tag))
				}
			default:
				ac = c.False()
			}
			okc = c.Or(okc, c.And(al.Cond, ac))
		}
		res := &IfaceV{Typ: T}
		for _, al := range iv.Alts {
			res.Alts = append(res.Alts, al)
		}
		if x.CommaOk {
			return &TupleV{Vs: []Value{e.merge(okc, res, e.zero(T)), Scalar{T: okc, Typ: types.Typ[types.Bool]}}}
		}
		e.oblige(st, "assert-type", exprLabel(e, x, x.Pos()), okc, x.Pos())
		return res
	}
	id := c.BVC(uint64(e.typeID(T)), 64)
	okc := c.False()
	var val Value
	for i := len(iv.Alts) - 1; i >= 0; i-- {
		al := iv.Alts[i]
		var v Value
		var ac *smt.Term
		switch {
		case al.Typ != nil:
			if !types.Identical(al.Typ, T) {
				continue
			}
			ac, v = c.True(), al.Val
		case al.Opaque != nil:
			ac = c.Eq(al.Tag, id)
			v = e.fromTerm(T, c.App("if_pl_"+sortName(T), sortOf(T), al.Opaque), "("+types.TypeString(T, nil)+")")
		default:
			continue
		}
		g := c.And(al.Cond, ac)
		okc = c.Or(okc, g)
		if val == nil {
			val = v
		} else {
			val = e.merge(g, v, val)
		}
	}
	if val == nil {
		val = e.zero(T)
	}
	if x.CommaOk {
		return &TupleV{Vs: []Value{e.merge(okc, val, e.zero(T)), Scalar{T: okc, Typ: types.Typ[types.Bool]}}}
	}
	e.oblige(st, "assert-type", exprLabel(e, x, x.Pos()), okc, x.Pos())
	return val
}

func (e *Exec) lookup(st *State, x *ssa.Lookup) Value {
	c := e.C
	switch m := e.eval(st, x.X).(type) {
	case *MapV:
		k := e.eval(st, x.Index)
		ks, ok := k.(Scalar)
		if !ok {
			e.refuse("map key of type %T", k)
		}
		vt := m.Typ.Elem()
		sn := sortName(m.Typ)
		okc := c.App("map_has_"+sn, smt.Bool, m.ID, ks.T)
		val := e.fromTerm(vt, c.App("map_get_"+sn, sortOf(vt), m.ID, ks.T), "map[]")
		val = e.merge(okc, val, e.zero(vt))
		if x.CommaOk {
			return &TupleV{Vs: []Value{val, Scalar{T: okc, Typ: types.Typ[types.Bool]}}}
		}
		return val
	case Scalar: // string index
		idx := e.toIndex(st, x.Index)
		ln := c.App("str_len", smt.BV(64), m.T)
		e.oblige(st, "bounds", exprLabel(e, x, x.Pos()), c.And(c.BVSle(bv64(c, 0), idx), c.BVSlt(idx, ln)), x.Pos())
		return Scalar{T: c.App("str_at", smt.BV(8), m.T, idx), Typ: x.Type()}
	}
	e.refuse("Lookup on %T", e.eval(st, x.X))
	return nil
}
