package vc

import (
	"time"
	"fmt"
	"go/ast"
	"go/token"
	"go/types"
	"strings"

	"govc/smt"

	"golang.org/x/tools/go/ssa"
)

const repoPrefix = "github.com/google/go-tdx-guest"

func types_NewSlice(el types.Type) types.Type   { return types.NewSlice(el) }
func types_NewPointer(el types.Type) types.Type { return types.NewPointer(el) }

func debugRefName(x *ssa.DebugRef) string {
	if id, ok := x.Expr.(*ast.Ident); ok {
		return id.Name
	}
	return ""
}

// funcKey returns the SpecDB key of an SSA function.
func funcKey(f *ssa.Function) string {
	name := f.Name()
	if recv := f.Signature.Recv(); recv != nil {
		rt := recv.Type()
		ptr := ""
		if p, ok := rt.(*types.Pointer); ok {
			rt = p.Elem()
			ptr = "*"
		}
		tn := types.TypeString(rt, func(*types.Package) string { return "" })
		if ptr != "" {
			name = "(*" + tn + ")." + f.Name()
		} else {
			name = tn + "." + f.Name()
		}
	}
	if f.Pkg != nil {
		return f.Pkg.Pkg.Path() + "." + name
	}
	if f.Parent() != nil {
		return funcKey(f.Parent()) + "$" + f.Name()
	}
	// synthetic / instantiated
	if o := f.Object(); o != nil && o.Pkg() != nil {
		return o.Pkg().Path() + "." + name
	}
	return name
}

func isRepoFunc(f *ssa.Function) bool {
	for p := f; p != nil; p = p.Parent() {
		if p.Pkg != nil {
			return strings.HasPrefix(p.Pkg.Pkg.Path(), repoPrefix)
		}
	}
	if o := f.Object(); o != nil && o.Pkg() != nil {
		return strings.HasPrefix(o.Pkg().Path(), repoPrefix)
	}
	return false
}

func (db *SpecDB) Lookup(f *ssa.Function) *FuncSpec {
	return db.Funcs[funcKey(f)]
}

// call evaluates a call instruction.
func (e *Exec) call(st *State, cc *ssa.CallCommon, site ssa.Value, pos token.Pos) Value {
	var args []Value
	for _, a := range cc.Args {
		args = append(args, e.eval(st, a))
	}
	var fn Value
	if !cc.IsInvoke() {
		if _, isB := cc.Value.(*ssa.Builtin); !isB {
			fn = e.eval(st, cc.Value)
		}
	}
	return e.callValues(st, cc, fn, args, site, pos)
}

func (e *Exec) callValues(st *State, cc *ssa.CallCommon, fn Value, args []Value, site ssa.Value, pos token.Pos) Value {
	if cc.IsInvoke() {
		recv := e.eval(st, cc.Value)
		return e.invoke(st, recv.(*IfaceV), cc.Method, args, cc, pos)
	}
	if b, ok := cc.Value.(*ssa.Builtin); ok {
		return e.builtin(st, b, cc, args, pos)
	}
	fv, ok := fn.(*FuncV)
	if !ok {
		e.refuse("call of non-function value %T", fn)
	}
	if fv.Fn != nil {
		return e.callFunc(st, fv.Fn, fv.Bindings, args, pos)
	}
	// opaque function value: pure, arbitrary result, no effects (assumption recorded)
	e.Externs["<opaque function value>"] = true
	e.oblige(st, "nil", "call of function value "+srcText(e, cc.Value, 0), e.C.Neq(fv.ID, e.C.BVC(uint64(0), 64)), pos)
	sig := cc.Signature()
	return e.freshResults(sig.Results(), "fnval")
}

func (e *Exec) freshResults(res *types.Tuple, name string) Value {
	switch res.Len() {
	case 0:
		return &TupleV{}
	case 1:
		return e.fresh(res.At(0).Type(), name)
	}
	return e.fresh(res, name)
}

func (e *Exec) callFunc(st *State, f *ssa.Function, bindings, args []Value, pos token.Pos) Value {
	key := funcKey(f)
	// call-site requirements of the function under verification
	if e.Spec != nil && e.Spec.SiteReqs != nil && e.dry == 0 {
		if reqs, ok := e.Spec.SiteReqs[f.Name()]; ok {
			vars := map[string]specVar{}
			for _, p := range e.Fn.Params {
				p := p
				vars[p.Name()] = func(s *State) Value { return e.paramValue(s, p) }
			}
			if e.Spec != nil {
				for i, n := range e.Spec.Params {
					if i < len(e.Fn.Params) {
						p := e.Fn.Params[i]
						vars[n] = func(s *State) Value { return e.paramValue(s, p) }
					}
				}
			}
			for i, a := range args {
				a := a
				vars[fmt.Sprintf("arg%d", i)] = func(*State) Value { return a }
				if i < len(f.Params) {
					vars[f.Params[i].Name()] = func(*State) Value { return a }
				}
			}
			if cs := e.DB.Funcs[key]; cs != nil {
				for i, n := range cs.Params {
					if i < len(args) {
						a := args[i]
						vars[n] = func(*State) Value { return a }
					}
				}
			}
			for _, rq := range reqs {
				t := e.evalSpecBool(rq, vars, st, e.entry, "at "+f.Name()+" requires")
				e.oblige(st, "site", f.Name()+": "+clauseLabel(rq), t, pos)
			}
		}
	}
	forceInline := false
	if e.Spec != nil {
		for _, n := range e.Spec.Inlines {
			if n == f.Name() {
				forceInline = true
			}
		}
	}
	// replay mode: the bodies of contracted repo callees are executed instead of
	// their contracts (to a bounded depth), so that a counterexample is
	// consistent with what the callees really do
	if spec := e.DB.Funcs[key]; e.ReplayInline > 0 && e.depth < e.ReplayInline && spec != nil && !spec.Trusted && !spec.Extern && spec.Records == "" && len(f.Blocks) > 0 && isRepoFunc(f) && f != e.curFn() {
		// bounded: a function with a large call tree is replayed with contracts
		e.replayInlined++
		if e.replayInlined > 40 || (!e.ReplayDeadline.IsZero() && time.Now().After(e.ReplayDeadline)) {
			e.refuse("replay: too much to inline below %s", e.fnName)
		}
		forceInline = true
	}
	if spec := e.DB.Funcs[key]; spec != nil && !spec.Inline && !forceInline && f != e.curFn() && !spec.Extern && len(f.Blocks) > 0 {
		if why := e.staleContract(f, spec); why != "" {
			// the contract no longer fits the function (its signature or the
			// types it talks about changed): it is ignored with a note, the
			// function is inlined like any function without a contract, and the
			// predicates it used to reveal are revealed to its callers
			e.note("contract of %s does not fit the function any more (%s): ignored, the function is inlined", key, why)
			for _, r := range spec.Reveal {
				if e.extraReveal == nil {
					e.extraReveal = map[string]bool{}
				}
				e.extraReveal[r] = true
			}
			forceInline = true
		}
	}
	if spec := e.DB.Funcs[key]; spec != nil && !spec.Inline && !forceInline && f != e.curFn() {
		if spec.Extern {
			e.Externs[key] = true
		} else {
			e.Callees[key] = true
		}
		return e.applyContract(st, spec, f.Signature, f.Params, args, key, pos)
	}
	nkey := key
	if i := strings.Index(nkey, "["); i > 0 && !strings.HasPrefix(nkey, "(") {
		nkey = nkey[:i] // instance of a generic function
	}
	if nat, ok := natives[nkey]; ok {
		e.Externs[key] = true
		return nat(e, st, f, args, pos)
	}
	if strings.HasPrefix(key, "github.com/google/logger.") || strings.HasPrefix(key, "(github.com/google/logger.") {
		e.Externs["github.com/google/logger.*"] = true
		return e.freshResults(f.Signature.Results(), "logger")
	}
	if len(f.Blocks) > 0 && (isRepoFunc(f) || f.Parent() != nil || e.DB.InlineExt[key]) {
		if e.depth > 12 {
			e.refuse("inlining depth exceeded at %s", key)
		}
		for _, fr := range e.frames {
			if fr.fn == f {
				e.refuse("recursive call of %s", key)
			}
		}
		e.Inlined[key] = true
		return e.inline(st, f, bindings, args, pos)
	}
	// Unmodelled external: arbitrary results and arbitrary effects on every
	// memory location reachable from its arguments (it is assumed not to panic
	// and not to touch anything else).  Listed in the evidence.
	if readOnlyStdlib(key) {
		// package-level functions of these standard-library packages read their
		// arguments only; the result is arbitrary and may alias an argument
		e.Externs["UNMODELLED "+key+" (arbitrary result; standard-library function assumed not to write through its arguments)"] = true
		return e.freshResults(f.Signature.Results(), "unk_"+smt.Sanitize(f.Name()))
	}
	e.Externs["UNMODELLED "+key+" (arbitrary result; memory reachable from its arguments arbitrary)"] = true
	for i, a := range args {
		e.havocReach(st, a, fmt.Sprintf("unk%d", i), 0, map[*Object]bool{}, pos)
	}
	return e.freshResults(f.Signature.Results(), "unk_"+smt.Sanitize(f.Name()))
}

// foreignTrace returns the name of a ghost trace that x mentions and that the
// callee neither re-exports (emits) nor is itself recorded under.
func (e *Exec) foreignTrace(x SExpr, spec *FuncSpec) string {
	if e.traceNames == nil {
		e.traceNames = map[string]bool{}
		for _, f := range e.DB.Funcs {
			if f.Records != "" {
				e.traceNames[f.Records] = true
			}
		}
	}
	own := map[string]bool{}
	for _, em := range spec.Emits {
		own[em.Name] = true
	}
	found := ""
	var walk func(x SExpr)
	walk = func(x SExpr) {
		if found != "" || x == nil {
			return
		}
		switch n := x.(type) {
		case *SIndex:
			if id, ok := n.X.(*SIdent); ok && e.traceNames[id.Name] && !own[id.Name] {
				found = id.Name
				return
			}
			walk(n.X)
			walk(n.I)
		case *SBin:
			walk(n.L)
			walk(n.R)
		case *SUn:
			walk(n.X)
		case *SCall:
			if m, ok := e.DB.Macros[n.Fun]; ok && m != nil {
				walk(m.Body)
			}
			for _, a := range n.Args {
				walk(a)
			}
		case *SSlice:
			walk(n.X)
			walk(n.Lo)
			walk(n.Hi)
		case *SField:
			walk(n.X)
		case *SQuant:
			walk(n.Body)
		}
	}
	walk(x)
	return found
}

// inline symbolically executes the callee body in the caller's state.
func (e *Exec) inline(st *State, f *ssa.Function, bindings, args []Value, pos token.Pos) Value {
	cs := &State{guard: st.guard, facts: st.facts, env: map[ssa.Value]Value{}, mem: st.mem, recs: st.recs, ghost: st.ghost}
	for i, p := range f.Params {
		cs.env[p] = args[i]
	}
	for i, fv := range f.FreeVars {
		cs.env[fv] = bindings[i]
	}
	e.depth++
	rets := e.runBody(f, e.DB.Lookup(f), cs, false)
	e.depth--
	if len(rets) == 0 {
		st.guard = e.C.False()
		return e.freshResults(f.Signature.Results(), "noret")
	}
	var in []edgeState
	for _, r := range rets {
		in = append(in, edgeState{st: r.st})
	}
	var merged *State
	if len(in) == 1 {
		merged = in[0].st
	} else {
		// reuse mergeStates machinery without phis: fake block with no instrs
		b := &bodyRun{e: e, fn: f}
		for i := range in {
			in[i].st.env = map[ssa.Value]Value{}
		}
		merged = b.mergeNoPhi(in)
	}
	nres := f.Signature.Results().Len()
	var out []Value
	for k := 0; k < nres; k++ {
		var val Value
		for i := len(rets) - 1; i >= 0; i-- {
			if val == nil {
				val = rets[i].vals[k]
			} else {
				val = e.merge(rets[i].st.guard, rets[i].vals[k], val)
			}
		}
		out = append(out, val)
	}
	st.guard, st.facts, st.mem, st.recs, st.ghost = merged.guard, merged.facts, merged.mem, merged.recs, merged.ghost
	switch nres {
	case 0:
		return &TupleV{}
	case 1:
		return out[0]
	}
	return &TupleV{Vs: out}
}

func (b *bodyRun) mergeNoPhi(in []edgeState) *State {
	// mergeStates needs a block only for phis and pred lookup; emulate
	e := b.e
	c := e.C
	res := &State{env: map[ssa.Value]Value{}}
	guards := make([]*smt.Term, len(in))
	for i, es := range in {
		guards[i] = es.st.guard
	}
	res.guard = factorOr(c, guards)
	res.facts = in[0].st.facts
	for _, es := range in[1:] {
		res.facts = joinFacts(res.facts, es.st.facts)
	}
	res.mem = map[*Object]Value{}
	objs := map[*Object]bool{}
	for _, es := range in {
		for o := range es.st.mem {
			objs[o] = true
		}
	}
	for o := range objs {
		first := e.contents(in[0].st, o)
		same := true
		for i := 1; i < len(in); i++ {
			if e.contents(in[i].st, o) != first {
				same = false
				break
			}
		}
		val := first
		if !same {
			val = e.contents(in[len(in)-1].st, o)
			for i := len(in) - 2; i >= 0; i-- {
				val = e.merge(in[i].st.guard, e.contents(in[i].st, o), val)
			}
		}
		res.mem[o] = val
	}
	seen := map[*CallRec]bool{}
	for _, es := range in {
		for _, r := range es.st.recs {
			if !seen[r] {
				seen[r] = true
				res.recs = append(res.recs, r)
			}
		}
	}
	for _, es := range in {
		if es.st.ghost != nil {
			res.ghost = map[string]Value{}
			break
		}
	}
	if res.ghost != nil {
		for k := range in[0].st.ghost {
			val := in[len(in)-1].st.ghost[k]
			for i := len(in) - 2; i >= 0; i-- {
				val = e.merge(in[i].st.guard, in[i].st.ghost[k], val)
			}
			res.ghost[k] = val
		}
	}
	return res
}

// ---- contracts at call sites ----

func (e *Exec) evalSpecBool(cl Clause, vars map[string]specVar, st, old *State, where string) (t *smt.Term) {
	se := &specEnv{e: e, st: st, old: old, vars: vars, bound: map[string]Value{}, where: where + " `" + cl.Text + "`", recBase: e.curRecBase}
	return se.evalBool(cl.Expr)
}

func (e *Exec) evalSpecIndex(cl Clause, vars map[string]specVar, st, old *State, where string) *smt.Term {
	se := &specEnv{e: e, st: st, old: old, vars: vars, bound: map[string]Value{}, where: where + " `" + cl.Text + "`"}
	return se.index(se.eval(cl.Expr), cl.Expr)
}

// bindSpecVars maps contract parameter/result names to values.
func bindSpecVars(spec *FuncSpec, params []Value, results []Value) map[string]specVar {
	vars := map[string]specVar{}
	for i, n := range spec.Params {
		if i < len(params) {
			v := params[i]
			vars[n] = func(*State) Value { return v }
		}
	}
	for i, n := range spec.Results {
		if i < len(results) {
			v := results[i]
			vars[n] = func(*State) Value { return v }
		}
	}
	return vars
}

func (e *Exec) applyContract(st *State, spec *FuncSpec, sig *types.Signature, params []*ssa.Parameter, args []Value, key string, pos token.Pos) Value {
	c := e.C
	short := key[strings.LastIndex(key, "/")+1:]
	vars := bindSpecVars(spec, args, nil)
	for _, rq := range spec.Requires {
		t := e.evalSpecBool(rq, vars, st, st, "requires of "+short)
		e.oblige(st, "pre", short+": "+clauseLabel(rq), t, pos)
	}
	old := st.clone()
	// ghost-trace indices in the callee's contract are relative to this call
	// for the traces the callee itself appends (emits)
	recBase := map[string]int{}
	for _, em := range spec.Emits {
		for _, r := range st.recs {
			if r.Name == em.Name {
				recBase[em.Name]++
			}
		}
	}
	// synthesize the ghost records the callee declares to append
	for _, em := range spec.Emits {
		mspec, msig := e.recordSource(em.Name)
		for k := 0; k < em.N; k++ {
			happened := c.Fresh(fmt.Sprintf("%s_%s%d_happened", smt.Sanitize(short), em.Name, k), smt.Bool)
			rec := &CallRec{Name: em.Name, Guard: c.And(st.guard, happened), Snap: map[string]Value{}, Vars: map[string]specVar{}}
			if mspec != nil && msig != nil {
				names := append(append([]string{}, mspec.Params...), mspec.Results...)
				var typs []types.Type
				if mspec.Method || msig.Recv() != nil {
					typs = append(typs, nil) // receiver: not modelled
				}
				for i := 0; i < msig.Params().Len(); i++ {
					typs = append(typs, msig.Params().At(i).Type())
				}
				for i := 0; i < msig.Results().Len(); i++ {
					typs = append(typs, msig.Results().At(i).Type())
				}
				for i, nme := range names {
					if i >= len(typs) || typs[i] == nil {
						continue
					}
					v := e.fresh(typs[i], fmt.Sprintf("%s_%s%d_%s", smt.Sanitize(short), em.Name, k, nme))
					rec.Vars[nme] = func(*State) Value { return v }
				}
			}
			rec.Pre = old
			rec.Post = old
			st.recs = append(append([]*CallRec{}, st.recs...), rec)
		}
	}
	// havoc the assigned locations
	if spec.AssignsAny {
		e.refuse("assigns \\anything at a call site (%s)", key)
	}
	for _, as := range spec.Assigns {
		se := &specEnv{e: e, st: st, old: old, vars: vars, bound: map[string]Value{}, where: "assigns of " + short}
		if call, ok := as.Expr.(*SCall); ok && call.Fun == "reach" && len(call.Args) == 1 {
			e.havocReach(st, se.eval(call.Args[0]), smt.Sanitize(short)+"_reach", 0, map[*Object]bool{}, pos)
			continue
		}
		for _, gl := range se.evalLocs(as.Expr) {
			e.frameCheck(st, gl.loc, gl.cond, "call "+short+" assigns "+as.Text, pos)
			oldv := e.loadLoc(st, gl.loc)
			nv := e.havocLike(oldv, smt.Sanitize(short)+"_as")
			if !gl.cond.IsTrue() {
				nv = e.merge(gl.cond, nv, oldv)
			}
			e.storeLoc(st, gl.loc, nv)
		}
	}
	for _, hv := range spec.Havocs {
		se := &specEnv{e: e, st: st, old: old, vars: vars, bound: map[string]Value{}, where: "havocs of " + short}
		e.havocReach(st, se.eval(hv.Expr), smt.Sanitize(short)+"_hv", 0, map[*Object]bool{}, pos)
	}
	// results
	res := sig.Results()
	var results []Value
	for i := 0; i < res.Len(); i++ {
		name := fmt.Sprintf("%s_r%d", smt.Sanitize(short), i)
		results = append(results, e.fresh(res.At(i).Type(), name))
	}
	vars = bindSpecVars(spec, args, results)
	if spec.NoReturn {
		st.guard = c.False()
	}
	// ghost record
	var rec *CallRec
	if spec.Records != "" {
		rec = &CallRec{Name: spec.Records, Guard: st.guard, Args: args, Results: results, Snap: map[string]Value{}, Pre: old, Vars: vars}
		for i, n := range spec.Params {
			if i < len(args) {
				rec.Snap[n] = e.snapshot(old, args[i])
			}
		}
		for i, n := range spec.Results {
			if i < len(results) {
				rec.Snap[n] = results[i]
			}
		}
		st.recs = append(append([]*CallRec{}, st.recs...), rec)
	}
	savedBase := e.curRecBase
	e.curRecBase = recBase
	defer func() { e.curRecBase = savedBase }()
	for _, en := range spec.Ensures {
		// a postcondition about calls the callee made (a ghost trace) says
		// nothing to a caller that cannot see those calls: the callee must
		// re-export them (`emits`) for the clause to be assumed here -
		// otherwise "no such call happened" would be read into it
		if t := e.foreignTrace(en.Expr, spec); t != "" && !spec.Extern && !spec.Method {
			e.note("postcondition [%s] of %s not assumed at a call: it speaks about the trace %s, which %s does not export to its callers", clauseLabel(en), short, t, short)
			continue
		}
		if e.DB.Dropped[key+"/post/"+clauseLabel(en)] {
			e.note("postcondition [%s] of %s not assumed: it failed in %s itself, callers are re-verified without it", clauseLabel(en), short, short)
			continue
		}
		if e.tryDefinitional(st, old, en, vars, short) {
			continue
		}
		if e.tryMacroEquation(st, old, en, vars, short) {
			continue
		}
		// a postcondition of the callee that cannot be evaluated in this
		// caller state is not assumed (sound: less is known) and noted
		func() {
			defer func() {
				if r := recover(); r != nil {
					se, ok := r.(specError)
					if !ok {
						panic(r)
					}
					e.note("postcondition [%s] of %s not assumed at a call: %s", clauseLabel(en), short, se.msg)
				}
			}()
			t := e.evalSpecBool(en, vars, st, old, "ensures of "+short)
			e.assume(st, t)
		}()
	}
	// ghost clocks and ghost updates of the callee
	for _, g := range spec.Advances {
		if _, declared := st.ghost[g]; !declared {
			continue // the function under verification does not track this ghost clock
		}
		if st.ghost == nil {
			st.ghost = map[string]Value{}
		} else {
			ng := map[string]Value{}
			for k, v := range st.ghost {
				ng[k] = v
			}
			st.ghost = ng
		}
		oldv, ok := st.ghost[g].(Scalar)
		nv := c.Fresh("ghost_"+g, smt.BV(64))
		if ok {
			e.assume(st, c.BVSle(oldv.T, nv))
		}
		// clock values are nanosecond instants well below 2^62
		e.assume(st, c.BVSle(nv, c.BVC(1<<62, 64)))
		st.ghost[g] = Scalar{T: nv, Typ: intTyp}
	}
	for _, gs := range spec.GhostSets {
		if _, declared := st.ghost[gs.Name]; !declared {
			continue
		}
		se := &specEnv{e: e, st: st, old: old, vars: vars, bound: map[string]Value{}, where: "ghostset of " + short}
		v := se.eval(gs.Expr)
		if u, ok := v.(Untyped); ok {
			v = Scalar{T: bv64(c, u.V), Typ: intTyp}
		}
		ng := map[string]Value{}
		for k, x := range st.ghost {
			ng[k] = x
		}
		ng[gs.Name] = v
		st.ghost = ng
	}
	if rec != nil {
		rec.Post = st.clone()
	}
	for _, fr := range spec.Fresh {
		if e.DB.Dropped[key+"/post/fresh("+fr.Text+")"] {
			continue
		}
		se := &specEnv{e: e, st: st, old: old, vars: vars, bound: map[string]Value{}, where: "fresh of " + short}
		fv := se.eval(fr.Expr)
		// storage declared fresh by the callee belongs to this call: writable
		switch x := fv.(type) {
		case *SliceV:
			for _, al := range x.Alts {
				if al.Loc != nil {
					al.Loc.Obj.Fresh = true
				}
			}
		case *PtrV:
			for _, al := range x.Alts {
				if al.Loc != nil {
					al.Loc.Obj.Fresh = true
				}
			}
		}
		e.assume(st, se.freshPred(fv, fr.Expr))
	}
	switch len(results) {
	case 0:
		return &TupleV{}
	case 1:
		return results[0]
	}
	return &TupleV{Vs: results}
}

// snapshot deep-copies the pointee of pointer arguments for ghost records.
func (e *Exec) snapshot(st *State, v Value) Value {
	switch p := v.(type) {
	case *PtrV:
		se := &specEnv{e: e, st: st}
		return se.deref(p)
	case *IfaceV:
		// pointer payloads are snapshotted
		for _, al := range p.Alts {
			if pv, ok := al.Val.(*PtrV); ok && len(p.Alts) == 1 {
				se := &specEnv{e: e, st: st}
				return se.deref(pv)
			}
		}
	}
	return v
}

// tryDefinitional recognises  [guard ==>] seq(r) == E  where r is a fresh
// result slice, and defines r's contents as E instead of assuming a
// quantified equality.
func (e *Exec) tryDefinitional(st, old *State, en Clause, vars map[string]specVar, short string) bool {
	c := e.C
	x := en.Expr
	var guardX SExpr
	if b, ok := x.(*SBin); ok && b.Op == "==>" {
		guardX, x = b.L, b.R
	}
	b, ok := x.(*SBin)
	if !ok || b.Op != "==" {
		return false
	}
	call, ok := b.L.(*SCall)
	if !ok || call.Fun != "seq" || len(call.Args) != 1 {
		return false
	}
	id, ok := call.Args[0].(*SIdent)
	if !ok {
		return false
	}
	isRes := false
	for _, r := range e.curSpecResults(vars, id.Name) {
		_ = r
		isRes = true
	}
	if !isRes {
		return false
	}
	se := &specEnv{e: e, st: st, old: old, vars: vars, bound: map[string]Value{}, where: "ensures of " + short + " `" + en.Text + "`"}
	sv, ok := se.eval(call.Args[0]).(*SliceV)
	if !ok || len(sv.Alts) != 2 || sv.Alts[1].Loc == nil || !sv.Alts[1].Loc.Obj.Pre {
		return false
	}
	rhs, ok := se.eval(b.R).(*SeqV)
	if !ok {
		return false
	}
	g := c.True()
	if guardX != nil {
		g = se.evalBool(guardX)
	}
	obj := sv.Alts[1].Loc.Obj
	if _, written := st.mem[obj]; written {
		return false
	}
	oldArr := e.initOf(obj).(*ArrV)
	el := sv.Elem
	st.mem[obj] = &ArrV{Elem: el, N: -1, Read: func(i *smt.Term) Value {
		return e.merge(g, Scalar{T: rhs.Read(i), Typ: el}, oldArr.Read(i))
	}}
	e.assume(st, c.Implies(g, c.And(c.Eq(sv.Len, rhs.Len), c.Not(sv.Alts[0].Cond))))
	if g.IsTrue() {
		// unconditional definition: the result is a view of the right-hand side
		// (its length term is that of the sequence, so seq(result) is the
		// sequence term itself and needs no name)
		sv.Len = rhs.Len
	}
	return true
}

func (e *Exec) curSpecResults(vars map[string]specVar, name string) []string {
	// result names are those bound in vars but not parameters of the spec; the
	// caller passes only matching names, so a presence check suffices
	if _, ok := vars[name]; ok {
		return []string{name}
	}
	return nil
}

type guardedLoc struct {
	cond *smt.Term
	loc  *Loc
}

// evalLocs evaluates an assigns expression to locations.
func (se *specEnv) evalLocs(x SExpr) []guardedLoc {
	e := se.e
	switch n := x.(type) {
	case *SUn:
		if n.Op == "*" {
			p, ok := se.eval(n.X).(*PtrV)
			if !ok {
				se.fail("assigns *x: x is not a pointer")
			}
			var out []guardedLoc
			for _, al := range p.Alts {
				if al.Loc != nil {
					out = append(out, guardedLoc{al.Cond, al.Loc})
				}
			}
			return out
		}
	case *SField:
		// p.f  where p is a pointer (or a nested field of one)
		bases := se.evalLocs(&SUn{Op: "*", X: n.X})
		if _, isField := n.X.(*SField); isField {
			if _, ok := se.eval(n.X).(*PtrV); !ok {
				bases = se.evalLocs(n.X)
			}
		}
		var out []guardedLoc
		for _, b := range bases {
			sv, ok := e.loadLoc(se.st, b.loc).(*StructV)
			if !ok {
				se.fail("assigns %s: not a struct", exprString(x))
			}
			idx := -1
			for i := 0; i < sv.T.NumFields(); i++ {
				if sv.T.Field(i).Name() == n.Name {
					idx = i
				}
			}
			if idx < 0 {
				se.fail("assigns %s: no such field", exprString(x))
			}
			out = append(out, guardedLoc{b.cond, &Loc{Obj: b.loc.Obj, Path: append(append([]PathElem{}, b.loc.Path...), PathElem{Field: idx})}})
		}
		return out
	case *SCall:
		if n.Fun == "contents" && len(n.Args) == 1 {
			// contents(s): the elements of slice s
			sv, ok := se.eval(n.Args[0]).(*SliceV)
			if !ok {
				se.fail("contents() of non-slice")
			}
			var out []guardedLoc
			for _, al := range sv.Alts {
				if al.Loc != nil {
					out = append(out, guardedLoc{al.Cond, al.Loc})
				}
			}
			return out
		}
	case *SIdent:
		if g := e.lookupGlobal(n.Name); g != nil {
			return []guardedLoc{{e.C.True(), &Loc{Obj: e.globalObj(g)}}}
		}
	}
	se.fail("unsupported assigns location %s", exprString(x))
	return nil
}

func (e *Exec) lookupGlobal(name string) *ssa.Global {
	pkg := e.Fn.Pkg
	if pkg == nil && e.Fn.Parent() != nil {
		pkg = e.Fn.Parent().Pkg
	}
	if pkg == nil {
		return nil
	}
	if g, ok := pkg.Members[name].(*ssa.Global); ok {
		return g
	}
	return nil
}

// frameCheck: a write to pre-existing memory must be covered by the assigns
// clause of the function under verification.
func (e *Exec) frameCheck(st *State, l *Loc, cond *smt.Term, what string, pos token.Pos) {
	if e.dry == 0 {
		e.FrameSites++
	}
	if !l.Obj.Pre || l.Obj.Fresh {
		return
	}
	if e.allowedWrite(l) {
		return
	}
	e.oblige(st, "frame", what, e.C.Not(cond), pos)
}

func (e *Exec) allowedWrite(l *Loc) bool {
	if e.assignsAny {
		return true
	}
	if len(e.assignsReach) > 0 {
		seen := map[*Object]bool{}
		var reach func(v Value, depth int) bool
		reach = func(v Value, depth int) bool {
			if depth > 8 || v == nil {
				return false
			}
			switch x := v.(type) {
			case *PtrV:
				for _, al := range x.Alts {
					if al.Loc == nil {
						continue
					}
					if al.Loc.Obj == l.Obj {
						return true
					}
					if len(al.Loc.Path) == 0 {
						if seen[al.Loc.Obj] {
							continue
						}
						seen[al.Loc.Obj] = true
					}
					if reach(e.loadLoc(e.entry, al.Loc), depth+1) {
						return true
					}
				}
			case *SliceV:
				for _, al := range x.Alts {
					if al.Loc != nil && al.Loc.Obj == l.Obj {
						return true
					}
				}
			case *StructV:
				for i := 0; i < x.T.NumFields(); i++ {
					switch x.T.Field(i).Type().Underlying().(type) {
					case *types.Pointer, *types.Slice, *types.Struct, *types.Interface, *types.Array:
						if reach(x.Field(i), depth) {
							return true
						}
					}
				}
			case *IfaceV:
				for _, al := range x.Alts {
					if al.Typ != nil && reach(al.Val, depth+1) {
						return true
					}
				}
			}
			return false
		}
		for _, r := range e.assignsReach {
			if reach(r, 0) {
				return true
			}
		}
	}
	for _, a := range e.assigns {
		if a.Obj != l.Obj || len(a.Path) > len(l.Path) {
			continue
		}
		ok := true
		for i := range a.Path {
			if a.Path[i].Idx != nil || l.Path[i].Idx != nil || a.Path[i].Field != l.Path[i].Field {
				ok = false
				break
			}
		}
		if ok {
			return true
		}
	}
	return false
}

// ---- interface dispatch ----

func (e *Exec) invoke(st *State, recv *IfaceV, m *types.Func, args []Value, cc *ssa.CallCommon, pos token.Pos) Value {
	c := e.C
	e.oblige(st, "nil", "method call on "+srcText(e, cc.Value, 0), c.Not(e.ifaceNil(recv)), pos)
	sig := m.Type().(*types.Signature)
	var result Value
	type branch struct {
		cond *smt.Term
		st   *State
		val  Value
	}
	var brs []branch
	for _, al := range recv.Alts {
		if al.Typ == nil && al.Opaque == nil {
			continue
		}
		bs := st
		if len(recv.Alts) > 1 {
			bs = st.clone()
			bs.guard = c.And(st.guard, al.Cond)
		}
		var v Value
		if al.Typ != nil {
			f := e.Prog.LookupMethod(al.Typ, m.Pkg(), m.Name())
			if f == nil {
				e.refuse("method %s not found on %v", m.Name(), al.Typ)
			}
			v = e.callFunc(bs, f, nil, append([]Value{al.Val}, args...), pos)
		} else {
			// interface-method contract
			key := ifaceMethodKey(recv.Typ, m)
			if key == "context.Context.Done" {
				v = Scalar{T: c.App("ctx_done", refSort, c.App("if_ident", refSort, al.Opaque)), Typ: sig.Results().At(0).Type()}
				brs = append(brs, branch{al.Cond, bs, v})
				continue
			}
			spec := e.DB.Funcs[key]
			if spec == nil {
				e.refuse("no contract for interface method %s", key)
			}
			e.Externs[key] = true
			// call-site requirements "at <Iface>.<Method>: requires ..." of the
			// function under verification
			if e.Spec != nil && e.Spec.SiteReqs != nil && e.dry == 0 {
				short := key[strings.LastIndex(key, "/")+1:] // pkg.Iface.Method
				if i := strings.Index(short, "."); i >= 0 {
					short = short[i+1:] // Iface.Method
				}
				if reqs, ok := e.Spec.SiteReqs[short]; ok {
					vars := map[string]specVar{}
					for _, p := range e.Fn.Params {
						p := p
						vars[p.Name()] = func(s *State) Value { return e.paramValue(s, p) }
					}
					for i, n := range e.Spec.Params {
						if i < len(e.Fn.Params) {
							p := e.Fn.Params[i]
							vars[n] = func(s *State) Value { return e.paramValue(s, p) }
						}
					}
					for i, a := range args {
						a := a
						vars[fmt.Sprintf("arg%d", i)] = func(*State) Value { return a }
					}
					for _, rq := range reqs {
						t := e.evalSpecBool(rq, vars, bs, e.entry, "at "+short+" requires")
						e.oblige(bs, "site", short+": "+clauseLabel(rq), t, pos)
					}
				}
			}
			v = e.applyContract(bs, spec, sig, nil, append([]Value{&IfaceV{Typ: recv.Typ, Alts: []IfaceAlt{{Cond: c.True(), Tag: al.Tag, Opaque: al.Opaque}}}}, args...), key, pos)
		}
		brs = append(brs, branch{al.Cond, bs, v})
	}
	if len(brs) == 0 {
		st.guard = c.False()
		return e.freshResults(sig.Results(), "nilinvoke")
	}
	if len(brs) == 1 {
		if brs[0].st != st {
			*st = *brs[0].st
		}
		return brs[0].val
	}
	var in []edgeState
	for _, b := range brs {
		in = append(in, edgeState{st: b.st})
	}
	env := st.env
	merged := (&bodyRun{e: e}).mergeNoPhi(in)
	for i := len(brs) - 1; i >= 0; i-- {
		if result == nil {
			result = brs[i].val
		} else {
			result = e.merge(brs[i].st.guard, brs[i].val, result)
		}
	}
	st.guard, st.facts, st.mem, st.recs, st.ghost = merged.guard, merged.facts, merged.mem, merged.recs, merged.ghost
	st.env = env
	return result
}

func ifaceMethodKey(t types.Type, m *types.Func) string {
	tn := types.TypeString(t, nil)
	return tn + "." + m.Name()
}

func (e *Exec) ifacePayload(iv *IfaceV, T types.Type) Value {
	c := e.C
	id := c.BVC(uint64(e.typeID(T)), 64)
	var val Value
	for i := len(iv.Alts) - 1; i >= 0; i-- {
		al := iv.Alts[i]
		var v Value
		var g *smt.Term
		switch {
		case al.Typ != nil:
			if !types.Identical(al.Typ, T) {
				continue
			}
			v, g = al.Val, al.Cond
		case al.Opaque != nil:
			v = e.fromTerm(T, c.App("if_pl_"+sortName(T), sortOf(T), al.Opaque), "payload")
			g = c.And(al.Cond, c.Eq(al.Tag, id))
		default:
			continue
		}
		if val == nil {
			val = v
		} else {
			val = e.merge(g, v, val)
		}
	}
	if val == nil {
		return e.zero(T)
	}
	return val
}

// lookupType resolves a type written in a spec string, e.g. "*tdx.QuoteV4".
func (e *Exec) lookupType(s string) types.Type {
	ptr := 0
	for strings.HasPrefix(s, "*") {
		ptr++
		s = s[1:]
	}
	dot := strings.LastIndex(s, ".")
	if dot < 0 {
		// predeclared types
		if o := types.Universe.Lookup(s); o != nil {
			if tn, ok := o.(*types.TypeName); ok {
				t := tn.Type()
				for i := 0; i < ptr; i++ {
					t = types.NewPointer(t)
				}
				return t
			}
		}
		if s == "[]byte" {
			return types.NewSlice(types.Typ[types.Uint8])
		}
		return nil
	}
	pkgName, tn := s[:dot], s[dot+1:]
	for _, p := range e.Prog.AllPackages() {
		if p.Pkg.Name() == pkgName || p.Pkg.Path() == pkgName {
			if o := p.Pkg.Scope().Lookup(tn); o != nil {
				if _, ok := o.(*types.TypeName); ok {
					t := o.Type()
					for i := 0; i < ptr; i++ {
						t = types.NewPointer(t)
					}
					return t
				}
			}
		}
	}
	return nil
}

// ---- select (only the retry loop uses it) ----

// selectOp models  select { case <-ctx.Done(): ; case <-time.After(d): }
// with a ghost clock (assumed timer / context semantics): the timer fires at
// now+d, the context is done from `deadline` on, a blocking select returns at
// the earlier of the two.
func (e *Exec) selectOp(st *State, x *ssa.Select) Value {
	c := e.C
	if !x.Blocking || len(x.States) == 0 {
		e.refuse("select: only a blocking receive on timers / context is modelled")
	}
	// Ghost clock: every case becomes ready at an instant -- a timer
	// time.After(d) at now+d (at once for d <= 0), <-ctx.Done() at the deadline
	// of the context created by context.WithTimeout.  A blocking select returns
	// with a case whose instant is the earliest, at that instant (or now if it
	// has already passed).
	now, ok := st.ghost["now"].(Scalar)
	if !ok {
		e.refuse("select: ghost clock not initialised (declare `ghost now = 0` in the contract)")
	}
	var ready []*smt.Term
	for _, s := range x.States {
		if s.Dir != types.RecvOnly {
			e.refuse("select: send cases are not modelled")
		}
		ch, ok := e.eval(st, s.Chan).(Scalar)
		if !ok || ch.T.Op != "app" {
			e.refuse("select on an unknown channel")
		}
		switch ch.T.Name {
		case "ctx_done":
			dl, ok := st.ghost["ctxdeadline"].(Scalar)
			if !ok {
				e.refuse("select: <-ctx.Done() of a context without a modelled deadline")
			}
			ready = append(ready, dl.T)
		case "timer_after":
			d := ch.T.Args[0]
			ready = append(ready, c.Ite(c.BVSlt(bv64(c, 0), d), c.BVAdd(now.T, d), now.T))
		default:
			e.refuse("select on an unknown channel")
		}
	}
	e.Externs["ghost clock: time.After(d) fires d after the select starts, ctx.Done() is ready from the context deadline on, a blocking select returns with an earliest case at that instant (assumed)"] = true
	idx := c.Fresh("select_idx", smt.BV(64))
	var chosen *smt.Term = ready[len(ready)-1]
	inRange := c.False()
	for i := len(ready) - 1; i >= 0; i-- {
		is := c.Eq(idx, bv64(c, int64(i)))
		inRange = c.Or(inRange, is)
		if i < len(ready)-1 {
			chosen = c.Ite(is, ready[i], chosen)
		}
	}
	e.assume(st, inRange)
	for _, r := range ready {
		e.assume(st, c.BVSle(chosen, r))
	}
	newNow := c.Ite(c.BVSlt(now.T, chosen), chosen, now.T)
	ng := map[string]Value{}
	for k, v := range st.ghost {
		ng[k] = v
	}
	ng["now"] = Scalar{T: newNow, Typ: intTyp}
	st.ghost = ng
	tup := &TupleV{Vs: []Value{Scalar{T: idx, Typ: intTyp}, Scalar{T: c.Fresh("select_ok", smt.Bool), Typ: boolTyp}}}
	for _, s := range x.States {
		tup.Vs = append(tup.Vs, e.zero(s.Chan.Type().Underlying().(*types.Chan).Elem()))
	}
	return tup
}

// FuncKey is the exported form of funcKey.
func FuncKey(f *ssa.Function) string { return funcKey(f) }

// macroEq is an assumed equation  guard ==> M(args) == rhs  between a
// sequence-valued spec macro application and a sequence; later evaluations of
// M on the same arguments are rewritten to rhs (under the guard).
type macroEq struct {
	macro string
	keys  []int
	guard *smt.Term
	rhs   *SeqV
	epoch int
}

func (e *Exec) valueKey(v Value) (int, bool) {
	switch x := v.(type) {
	case *PtrV:
		return e.ptrAddr(x).ID, true
	case Scalar:
		return x.T.ID, true
	case *SliceV:
		return e.C.App("slkey", refSort, e.sliceBaseAddr(x), x.Len).ID, true
	}
	return 0, false
}

// tryMacroEquation recognises  [guard ==>] M(a1..an) == E  with M a macro.
func (e *Exec) tryMacroEquation(st, old *State, en Clause, vars map[string]specVar, short string) bool {
	x := en.Expr
	var guardX SExpr
	if b, ok := x.(*SBin); ok && b.Op == "==>" {
		guardX, x = b.L, b.R
	}
	b, ok := x.(*SBin)
	if !ok || b.Op != "==" {
		return false
	}
	call, ok := b.L.(*SCall)
	if !ok {
		return false
	}
	if _, isMacro := e.DB.Macros[call.Fun]; !isMacro {
		return false
	}
	se := &specEnv{e: e, st: st, old: old, vars: vars, bound: map[string]Value{}, where: "ensures of " + short + " `" + en.Text + "`"}
	var keys []int
	for _, a := range call.Args {
		k, ok := e.valueKey(se.eval(a))
		if !ok {
			return false
		}
		keys = append(keys, k)
	}
	rhs, ok := se.eval(b.R).(*SeqV)
	if !ok {
		return false
	}
	g := e.C.True()
	if guardX != nil {
		g = se.evalBool(guardX)
	}
	e.macroEqs = append(e.macroEqs, macroEq{macro: call.Fun, keys: keys, guard: e.C.And(st.guard, g), rhs: rhs, epoch: e.preWrites})
	return true
}

// havocReach makes all memory reachable from v arbitrary (pointer structure
// is kept: pointers and interfaces keep their targets, whose contents are
// havocked in turn).
func (e *Exec) havocReach(st *State, v Value, name string, depth int, seen map[*Object]bool, pos token.Pos) {
	if depth > 6 {
		return
	}
	switch x := v.(type) {
	case *PtrV:
		for _, al := range x.Alts {
			if al.Loc == nil {
				continue
			}
			if len(al.Loc.Path) == 0 {
				if seen[al.Loc.Obj] {
					continue
				}
				seen[al.Loc.Obj] = true
			}
			e.frameCheck(st, al.Loc, al.Cond, "external call may write "+name, pos)
			old := e.loadLoc(st, al.Loc)
			nv := e.havocKeepPtrs(st, old, name, depth, seen, pos)
			if !al.Cond.IsTrue() {
				nv = e.merge(al.Cond, nv, old)
			}
			e.storeLoc(st, al.Loc, nv)
		}
	case *IfaceV:
		for _, al := range x.Alts {
			if al.Typ != nil {
				e.havocReach(st, al.Val, name, depth+1, seen, pos)
			}
		}
	case *SliceV:
		for _, al := range x.Alts {
			if al.Loc == nil {
				continue
			}
			e.frameCheck(st, al.Loc, al.Cond, "external call may write "+name, pos)
			old := e.loadLoc(st, al.Loc)
			e.storeLoc(st, al.Loc, e.havocLike(old, name))
		}
	}
}

// havocKeepPtrs returns a fresh value shaped like old, keeping pointer-like
// components (and havocking what they point to).
func (e *Exec) havocKeepPtrs(st *State, old Value, name string, depth int, seen map[*Object]bool, pos token.Pos) Value {
	switch v := old.(type) {
	case *StructV:
		s := &StructV{T: v.T, F: make([]Value, len(v.F))}
		for i := 0; i < v.T.NumFields(); i++ {
			s.F[i] = e.havocKeepPtrs(st, v.Field(i), name+"_"+v.T.Field(i).Name(), depth, seen, pos)
		}
		return s
	case *PtrV, *IfaceV:
		e.havocReach(st, old, name, depth+1, seen, pos)
		return old
	case *SliceV:
		e.havocReach(st, old, name, depth+1, seen, pos)
		return old
	}
	return e.havocLike(old, name)
}

// lookupFunc resolves "pkg.Func" (package name or path) to an SSA function.
func (e *Exec) lookupFunc(s string) *ssa.Function {
	dot := strings.LastIndex(s, ".")
	if dot < 0 {
		return nil
	}
	pkgName, fn := s[:dot], s[dot+1:]
	for _, p := range e.Prog.AllPackages() {
		if p.Pkg.Name() == pkgName || p.Pkg.Path() == pkgName {
			if f := p.Func(fn); f != nil {
				return f
			}
		}
	}
	return nil
}

// recordSource finds the contract whose calls produce ghost records of the
// given name, and the signature of the function / interface method.
func (e *Exec) recordSource(name string) (*FuncSpec, *types.Signature) {
	for key, fs := range e.DB.Funcs {
		if fs.Records != name {
			continue
		}
		if fs.Method {
			// key = <interface type string>.<Method>
			dot := strings.LastIndex(key, ".")
			T := e.lookupType(key[:dot])
			if T == nil {
				return fs, nil
			}
			if it, ok := T.Underlying().(*types.Interface); ok {
				for i := 0; i < it.NumMethods(); i++ {
					if it.Method(i).Name() == key[dot+1:] {
						return fs, it.Method(i).Type().(*types.Signature)
					}
				}
			}
			return fs, nil
		}
		if f := e.lookupFuncByKey(key, fs); f != nil {
			return fs, f.Signature
		}
		return fs, nil
	}
	return nil, nil
}

func (e *Exec) lookupFuncByKey(key string, fs *FuncSpec) *ssa.Function {
	for fn := range e.allFuncs() {
		if funcKey(fn) == key {
			return fn
		}
	}
	return nil
}

func (e *Exec) allFuncs() map[*ssa.Function]bool {
	if e.funcsMemo == nil {
		e.funcsMemo = map[*ssa.Function]bool{}
		for _, p := range e.Prog.AllPackages() {
			for _, m := range p.Members {
				if f, ok := m.(*ssa.Function); ok {
					e.funcsMemo[f] = true
				}
			}
		}
	}
	return e.funcsMemo
}


// readOnlyStdlib recognises package-level functions of standard-library
// packages that never write through their arguments.  Functions whose names
// say otherwise (Append*, Encode*, Put*, Copy*, NewBuffer*) are excluded.
func readOnlyStdlib(key string) bool {
	i := strings.LastIndex(key, ".")
	if i < 0 || strings.Contains(key, "(") {
		return false
	}
	pkg, name := key[:i], key[i+1:]
	if j := strings.Index(key, "["); j > 0 {
		// instance of a generic function: pkg.Name[type args]
		base := key[:j]
		k := strings.LastIndex(base, ".")
		if k < 0 {
			return false
		}
		pkg, name = base[:k], base[k+1:]
	}
	switch pkg {
	case "slices":
		switch name {
		case "Contains", "ContainsFunc", "Index", "IndexFunc", "Equal", "EqualFunc", "Compare", "CompareFunc", "Max", "Min", "MaxFunc", "MinFunc",
			"BinarySearch", "BinarySearchFunc", "IsSorted", "IsSortedFunc", "Clone", "Concat", "Repeat":
			return true
		}
		return false
	case "sort":
		return strings.HasPrefix(name, "Search") || strings.HasSuffix(name, "IsSorted") || strings.HasSuffix(name, "AreSorted")
	case "cmp":
		return true
	}
	switch pkg {
	case "bytes", "strings", "unicode", "unicode/utf8", "unicode/utf16", "math", "math/bits", "errors", "strconv", "path", "path/filepath", "net/url", "encoding/hex", "encoding/base64", "crypto/subtle":
	default:
		return false
	}
	for _, p := range []string{"Append", "Encode", "Decode", "Put", "Copy", "NewBuffer", "ConstantTimeCopy", "XORBytes"} {
		if strings.HasPrefix(name, p) {
			// hex.EncodeToString / DecodeString / base64 string forms allocate
			if strings.HasSuffix(name, "ToString") || strings.HasSuffix(name, "String") || name == "DecodedLen" || name == "EncodedLen" {
				return true
			}
			return false
		}
	}
	return true
}


// staleContract reports (with a reason) whether a contract cannot be evaluated
// against the current signature of its function: a different number of
// parameters or results, or clauses that mention fields / identifiers the
// parameter types no longer have.
func (e *Exec) staleContract(f *ssa.Function, spec *FuncSpec) (why string) {
	key := funcKey(f)
	if e.staleMemo == nil {
		e.staleMemo = map[string]string{}
	}
	if w, ok := e.staleMemo[key]; ok {
		return w
	}
	defer func() { e.staleMemo[key] = why }()
	if len(spec.Params) > 0 && len(spec.Params) != len(f.Params) {
		return fmt.Sprintf("the contract names %d parameters, the function has %d", len(spec.Params), len(f.Params))
	}
	if len(spec.Results) > f.Signature.Results().Len() {
		return fmt.Sprintf("the contract names %d results, the function has %d", len(spec.Results), f.Signature.Results().Len())
	}
	// dry evaluation of requires / ensures on arbitrary arguments
	nax := len(e.Axioms)
	nfacts := len(e.Notes)
	_ = nfacts
	e.dry++
	defer func() {
		e.dry--
		e.Axioms = e.Axioms[:nax]
		if r := recover(); r != nil {
			se, ok := r.(specError)
			if !ok {
				if _, isRef := r.(refusal); isRef {
					why = ""
					return
				}
				panic(r)
			}
			m := se.msg
			for _, pat := range []string{"no field", "cannot select field", "deref of non-pointer", "not a struct", "cannot index"} {
				if strings.Contains(m, pat) {
					why = m
					return
				}
			}
			why = ""
		}
	}()
	st := &State{guard: e.C.True(), env: map[ssa.Value]Value{}, mem: map[*Object]Value{}}
	var args []Value
	for _, p := range f.Params {
		args = append(args, e.fresh(p.Type(), "stale_"+p.Name()))
	}
	var results []Value
	res := f.Signature.Results()
	for i := 0; i < res.Len(); i++ {
		results = append(results, e.fresh(res.At(i).Type(), "stale_r"))
	}
	vars := bindSpecVars(spec, args, results)
	for _, rq := range spec.Requires {
		e.evalSpecBool(rq, vars, st, st, "requires")
	}
	for _, en := range spec.Ensures {
		e.evalSpecBool(en, vars, st, st, "ensures")
	}
	for _, as := range spec.Assumes {
		e.evalSpecBool(as, vars, st, st, "assumes")
	}
	return ""
}
