package vc

import (
	"fmt"
	"os"
	"strconv"
	"strings"
	"unicode"
)

// ---- spec AST ----

type SExpr interface{}

type (
	SIdent struct{ Name string }
	SInt   struct{ V uint64 }
	SStr   struct{ V string }
	SBin   struct {
		Op   string
		L, R SExpr
	}
	SUn struct {
		Op string
		X  SExpr
	}
	SCall struct {
		Fun  string
		Args []SExpr
	}
	SIndex struct{ X, I SExpr }
	SSlice struct{ X, Lo, Hi SExpr }
	SField struct {
		X    SExpr
		Name string
	}
	SQuant struct {
		Forall bool
		Vars   []string
		Body   SExpr
	}
)

// Clause is one requires/ensures/invariant with its source text.
type Clause struct {
	Tag  string
	Expr SExpr
	Text string
	Line int
}

// LoopSpec holds the annotations of one loop.
type LoopSpec struct {
	Invariants []Clause
	Unroll     int
	Decreases  *Clause
}

// FuncSpec is the contract of one function.
type FuncSpec struct {
	Name     string // as written, e.g. "isSvnHigherOrEqual" or "(*RetryHTTPSGetter).Get" or "bytes.Equal"
	Pkg      string // package path the spec file belongs to ("" for externals)
	Params   []string
	Results  []string
	Requires []Clause
	Assumes  []Clause
	Ensures  []Clause
	Assigns  []Clause // location expressions; empty + AssignsSet => \nothing
	AssignsAny bool
	Loops    map[int]*LoopSpec
	Inline   bool
	Trusted  bool
	Extern   bool
	Method   bool // interface method contract
	NoReturn bool
	Records  string // ghost trace name
	Pure     bool
	File     string
	Line     int
	Ghost    []string
	Fresh    []Clause // results declared fresh
	Reveal   []string // opaque macros unfolded while verifying this function
	Havocs   []Clause // arguments whose reachable memory is arbitrary after the call
	Inlines  []string // callees (short names) whose bodies are inlined here although they have contracts
	Emits    []EmitSpec // ghost records this function appends (for callers using the contract)
	SiteReqs map[string][]Clause // "at <callee>: requires E": obligations at every call of that callee inside this function
	GhostInit []GhostSet // ghost variables of this function with their initial values
	GhostSets []GhostSet // ghost updates performed by a call of this function
	Advances  []string   // ghost clocks that advance by an arbitrary non-negative amount during a call
}

// GhostSet assigns a ghost variable.
type GhostSet struct {
	Name string
	Expr SExpr
	Text string
}

// EmitSpec: the function appends N ghost records named Name.
type EmitSpec struct {
	Name string
	N    int
}

// Macro is a spec-level definition.
type Macro struct {
	Name   string
	Params []string
	Body   SExpr
	Text   string
	Opaque bool // uninterpreted outside the functions that `reveal` it
}

// UFDecl declares an uninterpreted spec function.
type UFDecl struct {
	Name string
	Args []string // sort names
	Ret  string
}

// SpecDB is the set of all loaded contracts.
type SpecDB struct {
	Funcs  map[string]*FuncSpec // key: pkgpath + "." + name, or extern full name
	Macros map[string]*Macro
	UFs    map[string]*UFDecl
	Files  []string
	Consts map[string]uint64
	// AutoHavoc: loops without annotations are cut with the auto-derived invariants only.
	AutoHavoc bool
	// InlineExt lists external functions (by key) whose bodies are inlined.
	InlineExt map[string]bool
	// ErrKinds lists error types tracked through error chains (errors.As).
	ErrKinds []string
	// FrameAll: functions without a contract get `assigns \\nothing`.
	FrameAll bool
	// PkgInvariants: per package path, global invariants assumed at the entry
	// of every function of that package (established by package initialisation).
	PkgInvariants map[string][]Clause
	// Dropped: contract clauses that are not assumed (a relied-upon clause
	// failed in its own function and the functions relying on it are being
	// re-verified without it).  Keys: <func key>/post/<label> for
	// postconditions, <func key>/inv/<loop label>/<label> for loop invariants.
	Dropped map[string]bool
}

func NewSpecDB() *SpecDB {
	return &SpecDB{Funcs: map[string]*FuncSpec{}, Macros: map[string]*Macro{}, UFs: map[string]*UFDecl{}, Consts: map[string]uint64{}, InlineExt: map[string]bool{}, PkgInvariants: map[string][]Clause{}}
}

// LoadFile parses a contract file; pkg is the package path for keys.
func (db *SpecDB) LoadFile(path, pkg string) error {
	data, err := os.ReadFile(path)
	if err != nil {
		return err
	}
	db.Files = append(db.Files, path)
	var cur *FuncSpec
	lines := strings.Split(string(data), "\n")
	for ln := 0; ln < len(lines); ln++ {
		line := strings.TrimSpace(lines[ln])
		var body string
		switch {
		case strings.HasPrefix(line, "//@"):
			body = strings.TrimSpace(line[3:])
		case strings.HasPrefix(line, "// @"):
			body = strings.TrimSpace(line[4:])
		default:
			continue
		}
		start := ln + 1
		// continuation lines: "//@ |  ..."
		for ln+1 < len(lines) {
			nx := strings.TrimSpace(lines[ln+1])
			var nb string
			if strings.HasPrefix(nx, "//@") {
				nb = strings.TrimSpace(nx[3:])
			} else if strings.HasPrefix(nx, "// @") {
				nb = strings.TrimSpace(nx[4:])
			} else {
				break
			}
			if !strings.HasPrefix(nb, "|") {
				break
			}
			body += " " + strings.TrimSpace(nb[1:])
			ln++
		}
		if body == "" || strings.HasPrefix(body, "#") {
			continue
		}
		fail := func(format string, a ...interface{}) error {
			return fmt.Errorf("%s:%d: %s", path, start, fmt.Sprintf(format, a...))
		}
		word, rest := splitWord(body)
		switch word {
		case "func", "extern", "method":
			fs := &FuncSpec{Pkg: pkg, Loops: map[int]*LoopSpec{}, File: path, Line: start}
			if word == "extern" {
				fs.Extern = true
				w2, r2 := splitWord(rest)
				if w2 == "method" {
					fs.Method = true
					rest = r2
				} else if w2 == "func" {
					rest = r2
				}
			}
			if word == "method" {
				fs.Method = true
				fs.Extern = true
			}
			if err := parseHeader(fs, rest); err != nil {
				return fail("%v", err)
			}
			key := fs.Name
			if !fs.Extern {
				key = pkg + "." + fs.Name
			}
			if _, dup := db.Funcs[key]; dup {
				return fail("duplicate contract for %s", key)
			}
			db.Funcs[key] = fs
			cur = fs
		case "define", "opaque":
			if word == "opaque" {
				w2, r2 := splitWord(rest)
				if w2 != "define" {
					return fail("expected `opaque define`")
				}
				rest = r2
			}
			m, err := parseMacro(rest)
			if err != nil {
				return fail("%v", err)
			}
			m.Opaque = word == "opaque"
			if _, dup := db.Macros[m.Name]; dup {
				return fail("duplicate define %s", m.Name)
			}
			db.Macros[m.Name] = m
		case "uf":
			u, err := parseUF(rest)
			if err != nil {
				return fail("%v", err)
			}
			db.UFs[u.Name] = u
		case "invariant":
			x, err := ParseExpr(rest)
			if err != nil {
				return fail("invariant: %v", err)
			}
			db.PkgInvariants[pkg] = append(db.PkgInvariants[pkg], Clause{Expr: x, Text: rest, Line: start})
		case "errkind":
			k := strings.Trim(strings.TrimSpace(rest), "\"")
			db.ErrKinds = append(db.ErrKinds, k)
		case "const":
			// const NAME = value
			parts := strings.SplitN(rest, "=", 2)
			if len(parts) != 2 {
				return fail("bad const")
			}
			v, err := strconv.ParseUint(strings.TrimSpace(parts[1]), 0, 64)
			if err != nil {
				return fail("bad const value: %v", err)
			}
			db.Consts[strings.TrimSpace(parts[0])] = v
		default:
			if cur == nil {
				return fail("clause %q outside a func block", word)
			}
			if err := parseClause(cur, word, rest, start); err != nil {
				return fail("%v", err)
			}
		}
	}
	return nil
}

func splitWord(s string) (string, string) {
	s = strings.TrimSpace(s)
	i := 0
	for i < len(s) && (unicode.IsLetter(rune(s[i])) || s[i] == '_' || s[i] == '\\') {
		i++
	}
	return s[:i], strings.TrimSpace(s[i:])
}

// parseHeader parses  Name(p1, p2) (r1, r2); Name may itself contain a
// parenthesised receiver, e.g. pkg.(*T).Method.
func parseHeader(fs *FuncSpec, s string) error {
	s = strings.TrimSpace(s)
	type grp struct{ a, b int }
	var groups []grp
	depth, st := 0, -1
	for i, r := range s {
		switch r {
		case '(':
			if depth == 0 {
				st = i
			}
			depth++
		case ')':
			depth--
			if depth == 0 && st >= 0 {
				groups = append(groups, grp{st, i})
				st = -1
			}
		}
	}
	if len(groups) == 0 {
		return fmt.Errorf("missing parameter list in %q", s)
	}
	last := groups[len(groups)-1]
	if strings.TrimSpace(s[last.b+1:]) != "" {
		return fmt.Errorf("unexpected text after header: %q", s[last.b+1:])
	}
	params := last
	if len(groups) >= 2 {
		prev := groups[len(groups)-2]
		between := s[prev.b+1 : last.a]
		if strings.TrimSpace(between) == "" && between != "" {
			// "...(params) (results)"
			params = prev
			fs.Results = splitNames(s[last.a+1 : last.b])
		}
	}
	fs.Name = strings.TrimSpace(s[:params.a])
	fs.Params = splitNames(s[params.a+1 : params.b])
	if fs.Name == "" {
		return fmt.Errorf("missing function name in %q", s)
	}
	return nil
}

func splitNames(s string) []string {
	var out []string
	for _, p := range strings.Split(s, ",") {
		p = strings.TrimSpace(p)
		if p == "" {
			continue
		}
		// allow "name type": keep the first word
		if i := strings.IndexAny(p, " \t"); i >= 0 {
			p = p[:i]
		}
		out = append(out, p)
	}
	return out
}

func parseMacro(s string) (*Macro, error) {
	i := strings.Index(s, "(")
	j := strings.Index(s, ")")
	eq := strings.Index(s, "=")
	if i < 0 || j < i || eq < j {
		return nil, fmt.Errorf("bad define: %q", s)
	}
	m := &Macro{Name: strings.TrimSpace(s[:i]), Params: splitNames(s[i+1 : j]), Text: s}
	ex, err := ParseExpr(strings.TrimSpace(s[eq+1:]))
	if err != nil {
		return nil, err
	}
	m.Body = ex
	return m, nil
}

func parseUF(s string) (*UFDecl, error) {
	i := strings.Index(s, "(")
	j := strings.LastIndex(s, ")")
	if i < 0 || j < i {
		return nil, fmt.Errorf("bad uf: %q", s)
	}
	u := &UFDecl{Name: strings.TrimSpace(s[:i]), Ret: strings.TrimSpace(s[j+1:])}
	for _, a := range strings.Split(s[i+1:j], ",") {
		a = strings.TrimSpace(a)
		if a != "" {
			u.Args = append(u.Args, a)
		}
	}
	if u.Ret == "" {
		u.Ret = "Bool"
	}
	return u, nil
}

func parseTag(word, rest string) (tag, expr string) {
	rest = strings.TrimSpace(rest)
	if strings.HasPrefix(rest, "[") {
		j := strings.Index(rest, "]")
		if j > 0 {
			return rest[1:j], strings.TrimSpace(rest[j+1:])
		}
	}
	return "", rest
}

func parseClause(fs *FuncSpec, word, rest string, line int) error {
	switch word {
	case "requires", "ensures", "assumes":
		tag, ex := parseTag(word, rest)
		x, err := ParseExpr(ex)
		if err != nil {
			return fmt.Errorf("%s: %v", word, err)
		}
		cl := Clause{Tag: tag, Expr: x, Text: ex, Line: line}
		switch word {
		case "requires":
			fs.Requires = append(fs.Requires, cl)
		case "assumes":
			// assumed at entry of the function's own verification only (the
			// definition of a spec function); never an obligation, never used at
			// call sites, and listed in the evidence as trusted
			fs.Assumes = append(fs.Assumes, cl)
		default:
			fs.Ensures = append(fs.Ensures, cl)
		}
	case "assigns":
		r := strings.TrimSpace(rest)
		if r == "\\nothing" {
			return nil
		}
		if r == "\\anything" {
			fs.AssignsAny = true
			return nil
		}
		for _, part := range splitTop(r) {
			x, err := ParseExpr(part)
			if err != nil {
				return fmt.Errorf("assigns: %v", err)
			}
			fs.Assigns = append(fs.Assigns, Clause{Expr: x, Text: part, Line: line})
		}
	case "fresh":
		for _, part := range splitTop(rest) {
			x, err := ParseExpr(part)
			if err != nil {
				return fmt.Errorf("fresh: %v", err)
			}
			fs.Fresh = append(fs.Fresh, Clause{Expr: x, Text: part, Line: line})
		}
	case "loop":
		// loop N: invariant E | unroll K | decreases E
		colon := strings.Index(rest, ":")
		if colon < 0 {
			return fmt.Errorf("loop clause needs ':'")
		}
		n, err := strconv.Atoi(strings.TrimSpace(rest[:colon]))
		if err != nil {
			return fmt.Errorf("loop ordinal: %v", err)
		}
		ls := fs.Loops[n]
		if ls == nil {
			ls = &LoopSpec{}
			fs.Loops[n] = ls
		}
		w, r := splitWord(rest[colon+1:])
		switch w {
		case "invariant":
			tag, ex := parseTag(w, r)
			x, err := ParseExpr(ex)
			if err != nil {
				return fmt.Errorf("invariant: %v", err)
			}
			ls.Invariants = append(ls.Invariants, Clause{Tag: tag, Expr: x, Text: ex, Line: line})
		case "unroll":
			k, err := strconv.Atoi(strings.TrimSpace(r))
			if err != nil {
				return fmt.Errorf("unroll: %v", err)
			}
			ls.Unroll = k
		case "decreases":
			x, err := ParseExpr(r)
			if err != nil {
				return fmt.Errorf("decreases: %v", err)
			}
			ls.Decreases = &Clause{Expr: x, Text: r, Line: line}
		default:
			return fmt.Errorf("unknown loop clause %q", w)
		}
	case "inline":
		fs.Inline = true
	case "trusted":
		fs.Trusted = true
	case "noreturn":
		fs.NoReturn = true
	case "pure":
		fs.Pure = true
	case "records":
		fs.Records = strings.TrimSpace(rest)
	case "ghost":
		// ghost NAME = EXPR   (initial value, in the function that owns it)
		if i := strings.Index(rest, "="); i > 0 && !strings.Contains(rest[:i], ",") {
			x, err := ParseExpr(strings.TrimSpace(rest[i+1:]))
			if err != nil {
				return fmt.Errorf("ghost: %v", err)
			}
			fs.GhostInit = append(fs.GhostInit, GhostSet{Name: strings.TrimSpace(rest[:i]), Expr: x, Text: rest})
			return nil
		}
		fs.Ghost = append(fs.Ghost, splitNames(rest)...)
	case "ghostset":
		i := strings.Index(rest, "=")
		if i < 0 {
			return fmt.Errorf("ghostset NAME = EXPR")
		}
		x, err := ParseExpr(strings.TrimSpace(rest[i+1:]))
		if err != nil {
			return fmt.Errorf("ghostset: %v", err)
		}
		fs.GhostSets = append(fs.GhostSets, GhostSet{Name: strings.TrimSpace(rest[:i]), Expr: x, Text: rest})
	case "advances":
		fs.Advances = append(fs.Advances, splitNames(rest)...)
	case "reveal":
		fs.Reveal = append(fs.Reveal, splitNames(rest)...)
	case "at":
		// at <callee>: requires <expr>
		colon := strings.Index(rest, ":")
		if colon < 0 {
			return fmt.Errorf("at clause needs ':'")
		}
		callee := strings.TrimSpace(rest[:colon])
		w, r := splitWord(rest[colon+1:])
		if w != "requires" {
			return fmt.Errorf("at %s: only `requires` is supported", callee)
		}
		tag, ex := parseTag(w, r)
		x, err := ParseExpr(ex)
		if err != nil {
			return fmt.Errorf("at %s: %v", callee, err)
		}
		if fs.SiteReqs == nil {
			fs.SiteReqs = map[string][]Clause{}
		}
		fs.SiteReqs[callee] = append(fs.SiteReqs[callee], Clause{Tag: tag, Expr: x, Text: ex, Line: line})
	case "emits":
		parts := strings.Fields(rest)
		if len(parts) != 2 {
			return fmt.Errorf("emits NAME COUNT")
		}
		n, err := strconv.Atoi(parts[1])
		if err != nil {
			return fmt.Errorf("emits count: %v", err)
		}
		fs.Emits = append(fs.Emits, EmitSpec{Name: parts[0], N: n})
	case "inlines":
		fs.Inlines = append(fs.Inlines, splitNames(rest)...)
	case "havocs":
		for _, part := range splitTop(rest) {
			x, err := ParseExpr(part)
			if err != nil {
				return fmt.Errorf("havocs: %v", err)
			}
			fs.Havocs = append(fs.Havocs, Clause{Expr: x, Text: part, Line: line})
		}
	default:
		return fmt.Errorf("unknown clause %q", word)
	}
	return nil
}

// splitTop splits on commas that are not nested in brackets.
func splitTop(s string) []string {
	var out []string
	depth := 0
	start := 0
	for i, r := range s {
		switch r {
		case '(', '[':
			depth++
		case ')', ']':
			depth--
		case ',':
			if depth == 0 {
				out = append(out, strings.TrimSpace(s[start:i]))
				start = i + 1
			}
		}
	}
	if t := strings.TrimSpace(s[start:]); t != "" {
		out = append(out, t)
	}
	return out
}

// ---- expression parser (precedence climbing) ----

type tok struct {
	kind string // ident, int, str, op, eof
	text string
	val  uint64
}

type lexer struct {
	toks []tok
	pos  int
}

func lex(s string) ([]tok, error) {
	var out []tok
	i := 0
	for i < len(s) {
		ch := s[i]
		switch {
		case ch == ' ' || ch == '\t':
			i++
		case unicode.IsLetter(rune(ch)) || ch == '_' || ch == '\\' || ch == '#':
			j := i + 1
			for j < len(s) && (unicode.IsLetter(rune(s[j])) || unicode.IsDigit(rune(s[j])) || s[j] == '_') {
				j++
			}
			out = append(out, tok{kind: "ident", text: s[i:j]})
			i = j
		case unicode.IsDigit(rune(ch)):
			j := i + 1
			for j < len(s) && (unicode.IsLetter(rune(s[j])) || unicode.IsDigit(rune(s[j])) || s[j] == '_') {
				j++
			}
			v, err := strconv.ParseUint(strings.ReplaceAll(s[i:j], "_", ""), 0, 64)
			if err != nil {
				return nil, fmt.Errorf("bad number %q", s[i:j])
			}
			out = append(out, tok{kind: "int", text: s[i:j], val: v})
			i = j
		case ch == '"':
			j := i + 1
			for j < len(s) && s[j] != '"' {
				if s[j] == '\\' {
					j++
				}
				j++
			}
			if j >= len(s) {
				return nil, fmt.Errorf("unterminated string")
			}
			v, err := strconv.Unquote(s[i : j+1])
			if err != nil {
				return nil, fmt.Errorf("bad string %s", s[i:j+1])
			}
			out = append(out, tok{kind: "str", text: v})
			i = j + 1
		default:
			ops := []string{"<==>", "==>", "::", "&&", "||", "==", "!=", "<=", ">=", "<<", ">>", "&^",
				"+", "-", "*", "/", "%", "&", "|", "^", "<", ">", "!", "(", ")", "[", "]", ",", ".", ":"}
			matched := false
			for _, op := range ops {
				if strings.HasPrefix(s[i:], op) {
					out = append(out, tok{kind: "op", text: op})
					i += len(op)
					matched = true
					break
				}
			}
			if !matched {
				return nil, fmt.Errorf("unexpected character %q in %q", ch, s)
			}
		}
	}
	out = append(out, tok{kind: "eof"})
	return out, nil
}

// ParseExpr parses a spec expression.
func ParseExpr(s string) (x SExpr, err error) {
	toks, err := lex(s)
	if err != nil {
		return nil, err
	}
	p := &lexer{toks: toks}
	defer func() {
		if r := recover(); r != nil {
			if pe, ok := r.(parseErr); ok {
				err = fmt.Errorf("%s in %q", pe.msg, s)
				return
			}
			panic(r)
		}
	}()
	x = p.parse(0)
	if p.peek().kind != "eof" {
		return nil, fmt.Errorf("unexpected %q in %q", p.peek().text, s)
	}
	return x, nil
}

type parseErr struct{ msg string }

func (p *lexer) peek() tok { return p.toks[p.pos] }
func (p *lexer) next() tok { t := p.toks[p.pos]; p.pos++; return t }
func (p *lexer) isOp(s string) bool {
	t := p.peek()
	return t.kind == "op" && t.text == s
}
func (p *lexer) expect(s string) {
	if !p.isOp(s) {
		panic(parseErr{fmt.Sprintf("expected %q, got %q", s, p.peek().text)})
	}
	p.pos++
}

var binPrec = map[string]int{
	"<==>": 1, "==>": 2, "||": 3, "&&": 4,
	"==": 5, "!=": 5, "<": 5, "<=": 5, ">": 5, ">=": 5,
	"+": 6, "-": 6, "|": 6, "^": 6,
	"*": 7, "/": 7, "%": 7, "<<": 7, ">>": 7, "&": 7, "&^": 7,
}

func (p *lexer) parse(minPrec int) SExpr {
	lhs := p.unary()
	for {
		t := p.peek()
		if t.kind != "op" {
			return lhs
		}
		prec, ok := binPrec[t.text]
		if !ok || prec < minPrec {
			return lhs
		}
		p.pos++
		var rhs SExpr
		if t.text == "==>" {
			rhs = p.parse(prec) // right associative
		} else {
			rhs = p.parse(prec + 1)
		}
		lhs = &SBin{Op: t.text, L: lhs, R: rhs}
	}
}

func (p *lexer) unary() SExpr {
	t := p.peek()
	if t.kind == "op" {
		switch t.text {
		case "!", "-", "^", "*":
			p.pos++
			return &SUn{Op: t.text, X: p.unary()}
		}
	}
	return p.postfix(p.primary())
}

func (p *lexer) primary() SExpr {
	t := p.next()
	switch t.kind {
	case "int":
		return &SInt{V: t.val}
	case "str":
		return &SStr{V: t.text}
	case "ident":
		if t.text == "forall" || t.text == "exists" {
			var vars []string
			for {
				v := p.next()
				if v.kind != "ident" {
					panic(parseErr{"expected bound variable"})
				}
				vars = append(vars, v.text)
				if p.isOp(",") {
					p.pos++
					continue
				}
				break
			}
			p.expect("::")
			body := p.parse(0)
			return &SQuant{Forall: t.text == "forall", Vars: vars, Body: body}
		}
		return &SIdent{Name: t.text}
	case "op":
		if t.text == "(" {
			x := p.parse(0)
			p.expect(")")
			return x
		}
	}
	panic(parseErr{fmt.Sprintf("unexpected %q", t.text)})
}

func (p *lexer) postfix(x SExpr) SExpr {
	for {
		switch {
		case p.isOp("."):
			p.pos++
			n := p.next()
			if n.kind != "ident" {
				panic(parseErr{"expected field name"})
			}
			// qualified function call like pkg.F(...) is not supported; fields only
			x = &SField{X: x, Name: n.text}
		case p.isOp("("):
			id, ok := x.(*SIdent)
			if !ok {
				panic(parseErr{"call of non-identifier"})
			}
			p.pos++
			var args []SExpr
			for !p.isOp(")") {
				args = append(args, p.parse(0))
				if p.isOp(",") {
					p.pos++
				}
			}
			p.expect(")")
			x = &SCall{Fun: id.Name, Args: args}
		case p.isOp("["):
			p.pos++
			var lo, hi SExpr
			if !p.isOp(":") {
				lo = p.parse(0)
			}
			if p.isOp(":") {
				p.pos++
				if !p.isOp("]") {
					hi = p.parse(0)
				}
				p.expect("]")
				x = &SSlice{X: x, Lo: lo, Hi: hi}
			} else {
				p.expect("]")
				x = &SIndex{X: x, I: lo}
			}
		default:
			return x
		}
	}
}
