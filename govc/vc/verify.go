package vc

import (
	"fmt"
	"os"
	"go/types"
	"sort"
	"strings"
	"sync"
	"time"

	"govc/smt"

	"golang.org/x/tools/go/ssa"
)

// FuncResult is the outcome of verifying one function.
type FuncResult struct {
	Func     string
	Key      string
	Obls     []*OblResult
	Problems []Problem
	Externs  []string
	Inlined  []string
	Callees  []string
	HasSpec  bool
	GenTime  float64
	Exec     *Exec
}

// OblResult is a discharged (or not) obligation.
type OblResult struct {
	O        *Obligation
	Status   string // proved, failed, undecided, cover-ok, cover-failed
	Solver   string
	Time     float64
	Script   string
	Output   string
	Trivial  bool
	Size     int
	AllTries []smt.Result
	Cross    map[string]string // thorough tier: verdict of every solver on the final script
}

// NewExec prepares an executor for fn.
func NewExec(prog *ssa.Program, db *SpecDB, fn *ssa.Function) *Exec {
	e := &Exec{C: smt.NewCtx(), Prog: prog, DB: db, Fn: fn,
		pre: map[string]*Object{}, globals: map[*ssa.Global]*Object{},
		typeIDs: map[string]int{}, typeByID: map[int]types.Type{}, strLits: map[string]*smt.Term{},
		Externs: map[string]bool{}, Inlined: map[string]bool{}, Callees: map[string]bool{}}
	e.fnName = shortKey(funcKey(fn))
	e.Spec = db.Lookup(fn)
	return e
}

func shortKey(k string) string {
	k = strings.TrimPrefix(k, repoPrefix+"/")
	return k
}

// Generate runs the symbolic execution of the function and collects obligations.
func (e *Exec) Generate() (err error) {
	defer func() {
		if r := recover(); r != nil {
			switch x := r.(type) {
			case refusal:
				e.problem(e.Fn.Pos(), "%s", x.msg)
			case specError:
				e.problem(e.Fn.Pos(), "%s", x.msg)
			default:
				panic(r)
			}
		}
	}()
	fn := e.Fn
	c := e.C
	st := &State{guard: c.True(), env: map[ssa.Value]Value{}, mem: map[*Object]Value{}}
	var args []Value
	for _, p := range fn.Params {
		v := e.fromTerm(p.Type(), c.Sym("p_"+smt.Sanitize(p.Name()), sortOf(p.Type())), p.Name())
		st.env[p] = v
		args = append(args, v)
	}
	for _, fv := range fn.FreeVars {
		st.env[fv] = e.fromTerm(fv.Type(), c.Sym("fv_"+smt.Sanitize(fv.Name()), sortOf(fv.Type())), fv.Name())
	}
	// package-level invariants (established by package initialisation)
	if fn.Pkg != nil || fn.Parent() != nil {
		pkg := fn.Pkg
		for p := fn; pkg == nil && p != nil; p = p.Parent() {
			pkg = p.Pkg
		}
		if pkg != nil {
			for _, inv := range e.DB.PkgInvariants[pkg.Pkg.Path()] {
				// an invariant about a package-level variable the code no longer
				// has is not assumed (less is known: sound) and noted
				ok := func() (ok bool) {
					defer func() {
						if r := recover(); r != nil {
							se, isSpec := r.(specError)
							if !isSpec {
								panic(r)
							}
							e.note("package invariant `%s` not assumed: %s", inv.Text, se.msg)
							ok = false
						}
					}()
					e.assume(st, e.evalSpecBool(inv, map[string]specVar{}, st, st, "package invariant"))
					return true
				}()
				if !ok {
					continue
				}
				e.Externs["package invariant (assumed, established by init): "+inv.Text] = true
			}
		}
	}
	e.entry = st.clone()
	if e.Spec != nil && !e.Spec.Extern {
		if why := e.staleContract(fn, e.Spec); why != "" {
			// without its contract the function has no precondition to be
			// verified against on its own; it is verified where it is called
			// (inlined into its callers, which are under contract)
			e.note("contract of %s does not fit the function any more (%s): ignored; the function is verified inlined into its callers only", e.fnName, why)
			e.staleOwn = true
			return nil
		}
	}
	spec := e.Spec
	var vars map[string]specVar
	if spec != nil {
		vars = bindSpecVars(spec, args, nil)
		for _, p := range fn.Params {
			if _, ok := vars[p.Name()]; !ok {
				v := st.env[p]
				vars[p.Name()] = func(*State) Value { return v }
			}
		}
		e.assignsAny = spec.AssignsAny
		for _, as := range spec.Assigns {
			se := &specEnv{e: e, st: st, old: st, vars: vars, bound: map[string]Value{}, where: "assigns"}
			if call, ok := as.Expr.(*SCall); ok && call.Fun == "reach" && len(call.Args) == 1 {
				e.assignsReach = append(e.assignsReach, se.eval(call.Args[0]))
				continue
			}
			for _, gl := range se.evalLocs(as.Expr) {
				e.assigns = append(e.assigns, gl.loc)
			}
		}
		for _, rq := range spec.Requires {
			e.assume(st, e.evalSpecBool(rq, vars, st, st, "requires"))
		}
		for _, as := range spec.Assumes {
			e.assume(st, e.evalSpecBool(as, vars, st, st, "assumes"))
			e.Externs["assumed definition `"+clauseLabel(as)+"` in the contract of "+e.fnName] = true
		}
		for _, gi := range spec.GhostInit {
			se := &specEnv{e: e, st: st, old: st, vars: vars, bound: map[string]Value{}, where: "ghost init"}
			v := se.eval(gi.Expr)
			if u, ok := v.(Untyped); ok {
				v = Scalar{T: bv64(c, u.V), Typ: intTyp}
			}
			if st.ghost == nil {
				st.ghost = map[string]Value{}
			}
			st.ghost[gi.Name] = v
		}
		if len(spec.Requires) > 0 {
			e.Obls = append(e.Obls, &Obligation{Func: e.fnName, Kind: "cover", Label: "requires-satisfiable", Guard: c.True(), Goal: c.True(), Facts: st.facts, Cover: true, Pos: e.Prog.Fset.Position(fn.Pos())})
		}
	} else {
		e.assignsAny = !e.DB.FrameAll
	}
	rets := e.runBody(fn, spec, st, true)
	reach := c.False()
	for i, r := range rets {
		reach = c.Or(reach, r.st.guard)
		if spec == nil {
			continue
		}
		rvars := bindSpecVars(spec, args, r.vals)
		for k, v := range vars {
			if _, ok := rvars[k]; !ok {
				rvars[k] = v
			}
		}
		// contents of byte-slice results at this return (compared by replays)
		resSeqs := map[int]*SeqV{}
		for k, rv := range r.vals {
			if sv, ok := rv.(*SliceV); ok {
				if w, _, isInt := intInfo(sv.Elem); isInt && w == 8 {
					func() {
						defer func() { recover() }()
						resSeqs[k] = e.sliceSeq(r.st, sv)
					}()
				}
			}
		}
		for _, en := range spec.Ensures {
			t := e.evalSpecBool(en, rvars, r.st, e.entry, "ensures")
			lbl := clauseLabel(en)
			o := &Obligation{Func: e.fnName, Kind: "post", Label: fmt.Sprintf("%s@ret%d", lbl, i), Guard: r.st.guard, Goal: t, Facts: r.st.facts, InFunc: fn.String(), Results: r.vals, Recs: r.st.recs, ResSeqs: resSeqs}
			o.Pos = e.Prog.Fset.Position(r.pos)
			o.Cands = append(o.Cands, e.cands...)
			if !t.IsTrue() {
				e.Obls = append(e.Obls, o)
			}
		}
		for _, fr := range spec.Fresh {
			se := &specEnv{e: e, st: r.st, old: e.entry, vars: rvars, bound: map[string]Value{}, where: "fresh"}
			t := se.freshPred(se.eval(fr.Expr), fr.Expr)
			if !t.IsTrue() {
				o := &Obligation{Func: e.fnName, Kind: "post", Label: fmt.Sprintf("fresh(%s)@ret%d", fr.Text, i), Guard: r.st.guard, Goal: t, Facts: r.st.facts, InFunc: fn.String()}
				o.Pos = e.Prog.Fset.Position(r.pos)
				e.Obls = append(e.Obls, o)
			}
		}
	}
	// vacuity guard: some return must be reachable under all assumptions
	if len(rets) > 0 {
		var fs *facts
		for _, r := range rets {
			fs = joinFacts(fs, r.st.facts)
		}
		e.Obls = append(e.Obls, &Obligation{Func: e.fnName, Kind: "cover", Label: "some-return-reachable", Guard: reach, Goal: c.True(), Facts: fs, Cover: true, Pos: e.Prog.Fset.Position(fn.Pos())})
		// soft per-return covers: a return that is unreachable under the assumed
		// contracts has its postconditions proved vacuously.  That is legitimate
		// for dead defensive code, and a symptom of a contradictory assumed
		// contract otherwise (the SetBytes hole, DESIGN 7), so it is reported as
		// a NOTE and listed in the evidence, never as an alarm.
		if len(rets) > 1 && spec != nil && len(spec.Ensures) > 0 {
			for i, r := range rets {
				e.Obls = append(e.Obls, &Obligation{Func: e.fnName, Kind: "cover", Label: fmt.Sprintf("return-reachable@ret%d", i), Guard: r.st.guard, Goal: c.True(), Facts: r.st.facts, Cover: true, Soft: true, Pos: e.Prog.Fset.Position(r.pos)})
			}
		}
	}
	return nil
}

// ---- quantifier elimination ----

type qelim struct {
	c      *smt.Ctx
	cands  []*smt.Term
	skolem map[int][]*smt.Term // quantifier term id -> skolems
	newSk  []*smt.Term
	budget int
	apps   map[string][]*smt.Term // ground applications by function name (E-matching)
	strict bool
	bmemo  map[int]bool
	// matching-loop guard: skolems created while instantiating a universal
	// (the witness of `forall k. P(k) ==> exists k2. Q(k2)` for one k) are not
	// used to instantiate universals that create skolems themselves; only
	// skolem-free universals (e.g. a refuted existential goal) see them
	depth  int
	inGoal bool // the formula being processed is the negated goal: its skolems are never restricted
	instCount map[int]int
	instTerm  map[int]*smt.Term
	instSk  map[int]int // skolem id -> generation
	genMemo map[int]int
	curGen  int
	prMemo  map[int]bool
}

// skGen: the highest generation of a hypothesis-instance skolem occurring in t
// (0: none).  A skolem created inside the instance of a universal at terms of
// generation g has generation g+1.
func (q *qelim) skGen(t *smt.Term) int {
	if len(q.instSk) == 0 {
		return 0
	}
	if r, ok := q.genMemo[t.ID]; ok {
		return r
	}
	r := q.instSk[t.ID]
	for _, a := range t.Args {
		if g := q.skGen(a); g > r {
			r = g
		}
	}
	q.genMemo[t.ID] = r
	return r
}

// maxSkolemGen: universals that create skolems are instantiated with terms up
// to this generation (matching-loop guard).
const maxSkolemGen = 1

// producesSkolems: instantiating t (read with polarity pos) creates skolems.
func producesSkolems(t *smt.Term, pos bool) bool {
	if !smt.HasQuant(t) {
		return false
	}
	switch t.Op {
	case "not":
		return producesSkolems(t.Args[0], !pos)
	case "and", "or":
		for _, a := range t.Args {
			if producesSkolems(a, pos) {
				return true
			}
		}
		return false
	case "forall", "exists":
		if (t.Op == "forall") != pos {
			return true
		}
		return producesSkolems(t.Args[0], pos)
	}
	return true // ite / = over quantified formulas: both polarities
}

// collectApps indexes the ground uninterpreted applications of t.
func (q *qelim) collectApps(t *smt.Term, seen map[int]bool) {
	if seen[t.ID] {
		return
	}
	seen[t.ID] = true
	if t.Op == "forall" || t.Op == "exists" {
		return
	}
	if t.Op == "app" {
		q.apps[t.Name] = append(q.apps[t.Name], t)
	}
	for _, a := range t.Args {
		q.collectApps(a, seen)
	}
}

func (q *qelim) hasBound(t *smt.Term) bool {
	if v, ok := q.bmemo[t.ID]; ok {
		return v
	}
	r := t.Op == "bvar"
	if !r {
		for _, a := range t.Args {
			if q.hasBound(a) {
				r = true
				break
			}
		}
	}
	q.bmemo[t.ID] = r
	return r
}

// matches returns instantiation candidates for variable v of a quantifier
// body: arguments of ground applications that match a pattern f(.., v, ..).
func (q *qelim) matches(body, v *smt.Term) []*smt.Term {
	var out []*smt.Term
	seenOut := map[int]bool{}
	seen := map[int]bool{}
	var walk func(t *smt.Term)
	walk = func(t *smt.Term) {
		if seen[t.ID] {
			return
		}
		seen[t.ID] = true
		if t.Op == "app" {
			for k, a := range t.Args {
				if a != v {
					continue
				}
				for _, g := range q.apps[t.Name] {
					if len(g.Args) != len(t.Args) {
						continue
					}
					ok := true
					for p := range t.Args {
						if p == k {
							continue
						}
						if q.hasBound(t.Args[p]) {
							continue // other bound variables: do not constrain
						}
						if t.Args[p] != g.Args[p] && (q.strict || !sameShape(t.Args[p], g.Args[p], 4)) {
							ok = false
							break
						}
					}
					if ok && !seenOut[g.Args[k].ID] && g.Args[k].Sort == v.Sort {
						seenOut[g.Args[k].ID] = true
						out = append(out, g.Args[k])
					}
				}
			}
		}
		for _, a := range t.Args {
			walk(a)
		}
	}
	walk(body)
	return out
}

func (q *qelim) nnf(t *smt.Term, pos bool) *smt.Term {
	c := q.c
	if !smt.HasQuant(t) {
		if pos {
			return t
		}
		return c.Not(t)
	}
	switch t.Op {
	case "not":
		return q.nnf(t.Args[0], !pos)
	case "and", "or":
		var parts []*smt.Term
		for _, a := range t.Args {
			parts = append(parts, q.nnf(a, pos))
		}
		if (t.Op == "and") == pos {
			return c.And(parts...)
		}
		return c.Or(parts...)
	case "ite":
		if !t.Sort.IsBool() {
			break
		}
		cnd, a, b := t.Args[0], t.Args[1], t.Args[2]
		return c.Or(c.And(q.nnf(cnd, true), q.nnf(a, pos)), c.And(q.nnf(cnd, false), q.nnf(b, pos)))
	case "=":
		a, b := t.Args[0], t.Args[1]
		if !a.Sort.IsBool() {
			break
		}
		if pos {
			return c.And(c.Or(q.nnf(a, false), q.nnf(b, true)), c.Or(q.nnf(b, false), q.nnf(a, true)))
		}
		return c.Or(c.And(q.nnf(a, true), q.nnf(b, false)), c.And(q.nnf(a, false), q.nnf(b, true)))
	case "forall", "exists":
		univ := (t.Op == "forall") == pos
		if !univ {
			// skolemise
			sk, ok := q.skolem[t.ID]
			if !ok {
				for _, v := range t.Vars {
					s := c.Fresh("sk_"+strings.TrimPrefix(v.Name, "?"), v.Sort)
					sk = append(sk, s)
					q.newSk = append(q.newSk, s)
					if q.depth > 0 && !q.inGoal {
						if q.instSk == nil {
							q.instSk = map[int]int{}
						}
						q.instSk[s.ID] = q.curGen + 1
						q.genMemo = map[int]int{}
					}
				}
				q.skolem[t.ID] = sk
			}
			m := map[*smt.Term]*smt.Term{}
			for i, v := range t.Vars {
				m[v] = sk[i]
			}
			return q.nnf(c.Subst(t.Args[0], m), pos)
		}
		// instantiate with all candidate tuples
		var parts []*smt.Term
		producer, known := q.prMemo[t.ID]
		if !known {
			producer = producesSkolems(t.Args[0], pos)
			if q.prMemo == nil {
				q.prMemo = map[int]bool{}
			}
			q.prMemo[t.ID] = producer
		}
		var rec func(i int, m map[*smt.Term]*smt.Term)
		rec = func(i int, m map[*smt.Term]*smt.Term) {
			if q.budget <= 0 {
				return
			}
			if i == len(t.Vars) {
				q.budget--
				if q.instCount != nil {
					q.instCount[t.ID]++
					q.instTerm[t.ID] = t
				}
				q.depth++
				saved := q.curGen
				for _, x := range m {
					if g := q.skGen(x); g > q.curGen {
						q.curGen = g
					}
				}
				parts = append(parts, q.nnf(c.Subst(t.Args[0], m), pos))
				q.curGen = saved
				q.depth--
				return
			}
			// candidates: E-matching against ground applications, plus the
			// designated candidate terms (loop counters, extensionality witnesses)
			var cset []*smt.Term
			have := map[int]bool{}
			for _, x := range q.matches(t.Args[0], t.Vars[i]) {
				if !have[x.ID] {
					have[x.ID] = true
					cset = append(cset, x)
				}
			}
			// index variables of definitional axioms (the elements of a named
			// sequence, the bytes of a string) are instantiated by E-matching
			// only: such an axiom is needed exactly where its left-hand side
			// occurs, never at every index term of the query
			if !strings.HasPrefix(t.Vars[i].Name, "?def") {
				for _, x := range q.cands {
					if !have[x.ID] {
						have[x.ID] = true
						cset = append(cset, x)
					}
				}
			}
			for _, cand := range cset {
				if cand.Sort != t.Vars[i].Sort {
					continue
				}
				if producer && os.Getenv("GOVC_NOGUARD") == "" && q.skGen(cand) > maxSkolemGen {
					continue
				}
				m2 := map[*smt.Term]*smt.Term{}
				for k, v := range m {
					m2[k] = v
				}
				m2[t.Vars[i]] = cand
				rec(i+1, m2)
			}
		}
		rec(0, map[*smt.Term]*smt.Term{})
		// a universal (forall asserted, or exists refuted) is weakened to the
		// conjunction of its instances
		return c.And(parts...)
	}
	// quantifier under a non-boolean operator: leave to the solver
	if pos {
		return t
	}
	return c.Not(t)
}

// symNodes adds the ids of all symbol / application nodes of t to set.
func symNodes(t *smt.Term, set map[int]bool, seen map[int]bool) {
	if seen[t.ID] {
		return
	}
	seen[t.ID] = true
	if t.Op == "sym" || t.Op == "app" {
		set[t.ID] = true
	}
	for _, a := range t.Args {
		symNodes(a, set, seen)
	}
}

func sharesNode(t *smt.Term, set map[int]bool, seen map[int]bool) bool {
	if seen[t.ID] {
		return false
	}
	seen[t.ID] = true
	if (t.Op == "sym" || t.Op == "app") && set[t.ID] {
		return true
	}
	for _, a := range t.Args {
		if sharesNode(a, set, seen) {
			return true
		}
	}
	return false
}

// Emit builds the (quantifier-free where possible) assertion list for o.
func (e *Exec) Emit(o *Obligation) []*smt.Term { return e.EmitMode(o, true) }

// EmitMode: strict E-matching (other arguments must match syntactically) or loose.
func (e *Exec) EmitMode(o *Obligation, strict bool) []*smt.Term {
	c := e.C
	var raw []*smt.Term
	raw = append(raw, o.Facts.collect()...)
	raw = append(raw, o.Extra...)
	raw = append(raw, o.Guard)
	if !o.Cover {
		raw = append(raw, c.Not(o.Goal))
	}
	// relevance filter for axioms: keep those sharing a symbol/application node
	nodes := map[int]bool{}
	seenN := map[int]bool{}
	for _, t := range raw {
		symNodes(t, nodes, seenN)
	}
	var axs []*smt.Term
	axSeen := map[int]bool{}
	for _, a := range e.Axioms {
		if !axSeen[a.ID] {
			axSeen[a.ID] = true
			axs = append(axs, a)
		}
	}
	included := make([]bool, len(axs))
	// named sequences are recognised by the name of their (fresh) symbol: the
	// name itself when it is a constant, the function when it was introduced
	// under a quantifier (then only its ground instances take part)
	seqW := map[string]int{}
	viewW := map[int]int{} // sequence-valued spec terms used as sequences: exact terms only
	for _, n := range e.seqNames {
		if strings.HasPrefix(n.t.Name, "seq!") {
			seqW[n.t.Name] = n.s.W
		} else {
			viewW[n.t.ID] = n.s.W
		}
	}
	groundMemo := map[int]bool{}
	isNamedSeq := func(a *smt.Term) (int, bool) {
		if a.Op != "sym" && a.Op != "app" {
			return 0, false
		}
		w, ok := seqW[a.Name]
		if !ok {
			w, ok = viewW[a.ID]
			if !ok {
				return 0, false
			}
		}
		g, done := groundMemo[a.ID]
		if !done {
			g = len(smt.FreeBVars(a)) == 0
			groundMemo[a.ID] = g
		}
		return w, g
	}
	extDone := map[[2]int]bool{}
	var extCands []*smt.Term
	// discoverExt adds extensionality between ground named sequences used as
	// the same argument of the same function (or compared) in ts
	discoverExt := func(ts []*smt.Term) bool {
		added := false
		groups := map[string][]*smt.Term{}
		seenG := map[int]bool{}
		var walk func(t *smt.Term)
		walk = func(t *smt.Term) {
			if seenG[t.ID] {
				return
			}
			seenG[t.ID] = true
			if t.Op == "app" && t.Name != "seq_len" && !strings.HasPrefix(t.Name, "seq_at") {
				for k, a := range t.Args {
					if _, ok := isNamedSeq(a); ok {
						key := fmt.Sprintf("%s#%d", t.Name, k)
						groups[key] = append(groups[key], a)
					}
				}
			}
			if t.Op == "=" && t.Args[0].Sort == sortByteSeq {
				for _, a := range t.Args {
					if _, ok := isNamedSeq(a); ok {
						groups["="] = append(groups["="], a)
					}
				}
			}
			for _, a := range t.Args {
				walk(a)
			}
		}
		for _, t := range ts {
			walk(t)
		}
		var gkeys []string
		for k := range groups {
			gkeys = append(gkeys, k)
		}
		sort.Strings(gkeys)
		for _, gk := range gkeys {
			g := groups[gk]
			uniq := map[int]*smt.Term{}
			for _, x := range g {
				uniq[x.ID] = x
			}
			var xs []*smt.Term
			for _, x := range uniq {
				xs = append(xs, x)
			}
			sort.Slice(xs, func(i, j int) bool { return xs[i].ID < xs[j].ID })
			if len(xs) > 12 {
				xs = xs[:12]
			}
			for i := 0; i < len(xs); i++ {
				for j := i + 1; j < len(xs); j++ {
					key := [2]int{xs[i].ID, xs[j].ID}
					wi, _ := isNamedSeq(xs[i])
					wj, _ := isNamedSeq(xs[j])
					if extDone[key] || wi != wj {
						continue
					}
					extDone[key] = true
					ax, d := e.extAxiom(xs[i], xs[j], wi)
					raw = append(raw, ax)
					symNodes(ax, nodes, seenN)
					extCands = append(extCands, d)
					added = true
				}
			}
		}
		return added
	}
	var out []*smt.Term
	for outer := 0; outer < 3; outer++ {
		for changed := true; changed; {
			changed = false
			for i, a := range axs {
				if included[i] {
					continue
				}
				if sharesNode(a, nodes, map[int]bool{}) {
					included[i] = true
					changed = true
					raw = append(raw, a)
					symNodes(a, nodes, seenN)
				}
			}
			if discoverExt(raw) {
				changed = true
			}
		}
		q := &qelim{c: c, skolem: map[int][]*smt.Term{}, apps: map[string][]*smt.Term{}, bmemo: map[int]bool{}, strict: strict, genMemo: map[int]int{}}
		seen := map[*smt.Term]bool{}
		var small []*smt.Term
		if e.SmallLen > 0 {
			// replay search: the index range is tiny, instantiate it completely
			for i := uint64(0); i < e.SmallLen; i++ {
				small = append(small, c.BVC(i, 64))
			}
		}
		// extensionality witnesses reach the hypotheses through E-matching (the
		// witness occurs in seq_at applications of the extensionality instance);
		// they are byte positions, not candidates for every index variable
		_ = extCands
		for _, x := range append(append(append([]*smt.Term{}, o.Cands...), e.cands...), small...) {
			if !seen[x] && (nodes[x.ID] || x.Op != "sym") {
				seen[x] = true
				q.cands = append(q.cands, x)
			}
		}
		out = nil
		prevSize := -1
		maxRounds := 4
		if !strict {
			maxRounds = 3
		}
		for round := 0; round < maxRounds; round++ {
			q.newSk = nil
			q.budget = 6000
			if os.Getenv("GOVC_DEBUG") == "2" {
				q.instCount, q.instTerm = map[int]int{}, map[int]*smt.Term{}
			}
			// ground terms known so far: the raw formulas plus the previous round's instances
			q.apps = map[string][]*smt.Term{}
			seenA := map[int]bool{}
			for _, t := range raw {
				q.collectApps(t, seenA)
			}
			for _, t := range out {
				q.collectApps(t, seenA)
			}
			if len(seenA) == prevSize && round > 0 {
				break
			}
			prevSize = len(seenA)
			out = nil
			for ri, t := range raw {
				q.inGoal = !o.Cover && ri == len(raw)-1
				out = append(out, q.nnf(t, true))
				q.inGoal = false
			}
			if os.Getenv("GOVC_DEBUG") != "" {
				fmt.Fprintf(os.Stderr, "  round %d strict=%v: budget left %d, skolems %d, cands %d\n", round, strict, q.budget, len(q.newSk), len(q.cands))
				if os.Getenv("GOVC_DEBUG") == "2" {
					fmt.Fprintf(os.Stderr, "    %d quantifiers instantiated\n", len(q.instCount))
					for id, n := range q.instCount {
						if n > 40 {
							str := q.instTerm[id].String()
							if len(str) > 300 {
								str = str[:300]
							}
							fmt.Fprintf(os.Stderr, "    %d instances of %s\n", n, str)
						}
					}
				}
			}
			// index terms at which the (skolemised) goal reads a local array are
			// candidates for the next rounds: a statement about "the slot this
			// element selects" needs the hypotheses about that slot (the index
			// set of the array-property fragment), and such an index need not
			// occur under any function the hypotheses mention
			if round == 0 && !o.Cover {
				goalInst := q.nnf(c.Not(o.Goal), true)
				seenI := map[int]bool{}
				var walkI func(t *smt.Term)
				walkI = func(t *smt.Term) {
					if seenI[t.ID] {
						return
					}
					seenI[t.ID] = true
					if t.Op == "app" && len(t.Args) > 0 && (strings.Contains(t.Name, "_arr!") || strings.Contains(t.Name, "_hv_")) {
						ix := t.Args[len(t.Args)-1]
						if ix.Sort == smt.BV(64) && !ix.IsConst() && !seen[ix] && len(smt.FreeBVars(ix)) == 0 && len(q.cands) < 40 {
							seen[ix] = true
							q.cands = append(q.cands, ix)
						}
					}
					for _, a := range t.Args {
						walkI(a)
					}
				}
				walkI(goalInst)
			}
			// skolems reach later instantiations through E-matching (they occur in
			// ground applications of the previous round), not as blanket candidates
			if round == 0 && os.Getenv("GOVC_SKCANDS") != "" {
				for _, s := range q.newSk {
					if !seen[s] {
						seen[s] = true
						q.cands = append(q.cands, s)
					}
				}
			}
		}
		// instances may contain ground instances of sequences named under a
		// quantifier: they need extensionality too, and then another pass
		if len(seqW)+len(viewW) == 0 || !discoverExt(out) {
			break
		}
	}
	// flatten top-level conjunctions, drop trivial
	var flat []*smt.Term
	for _, t := range out {
		if t.IsTrue() {
			continue
		}
		if t.Op == "and" {
			flat = append(flat, t.Args...)
		} else {
			flat = append(flat, t)
		}
	}
	return flat
}

// Discharge decides all obligations with its own pool of workers.
func (e *Exec) Discharge(quick bool, workers int, keepScripts bool) []*OblResult {
	sem := make(chan struct{}, workers)
	return e.discharge(quick, sem, keepScripts)
}

// DischargeWith decides all obligations, bounding solver processes by sem.
func (e *Exec) DischargeWith(quick bool, sem chan struct{}) []*OblResult {
	return e.discharge(quick, sem, false)
}

func (e *Exec) discharge(quick bool, sem chan struct{}, keepScripts bool) []*OblResult {
	res := make([]*OblResult, len(e.Obls))
	first, rest := 10*time.Second, 20*time.Second
	if !quick {
		first, rest = 60*time.Second, 120*time.Second
	}
	var wg sync.WaitGroup
	for i, o := range e.Obls {
		e.mu.Lock()
		asserts := e.Emit(o)
		e.mu.Unlock()
		r := &OblResult{O: o}
		res[i] = r
		falseFound := false
		for _, a := range asserts {
			if a.IsFalse() {
				falseFound = true
			}
		}
		if falseFound {
			r.Trivial = true
			if o.Cover {
				r.Status = "cover-failed"
			} else {
				r.Status = "proved"
			}
			r.Solver = "simplifier"
			continue
		}
		r.Size = smt.Size(asserts...)
		if os.Getenv("GOVC_DEBUG") != "" {
			fmt.Fprintf(os.Stderr, "emit %s: %d asserts, %d nodes, %d axioms, %d cands\n", o.Name(), len(asserts), r.Size, len(e.Axioms), len(e.cands))
		}
		logic := "QF_UFBV"
		for _, a := range asserts {
			if smt.HasQuant(a) {
				logic = "ALL"
				break
			}
		}
		script := e.scriptLocked(asserts, logic)
		if keepScripts {
			r.Script = script
		}
		wg.Add(1)
		go func(r *OblResult, script string) {
			defer wg.Done()
			sem <- struct{}{}
			defer func() { <-sem }()
			var best smt.Result
			var all []smt.Result
			if r.O.Cover {
				best, all = smt.Portfolio(script, first, rest)
			} else {
				// z3-new on the strictly instantiated script first; when that does
				// not prove the goal, the other two solvers on the same script and
				// z3-new on the loosely instantiated one (more instances of the
				// same hypotheses: sound, usually smaller) run side by side and
				// the first proof wins.  A model of a script is only reported when
				// no script was refuted.
				best = smt.RunSolver("z3-new", script, first)
				all = append(all, best)
				if best.Status != "unsat" {
					type tagged struct {
						res   smt.Result
						loose bool
					}
					ch := make(chan tagged, 4)
					n := 0
					if best.Status != "sat" {
						for _, sv := range []string{"z3", "cvc5", "z3-new-sat"} {
							n++
							go func(sv string) { ch <- tagged{smt.RunSolver(sv, script, rest), false} }(sv)
						}
					}
					if a2 := e.emitLocked(r.O, false); a2 != nil {
						logic2 := "QF_UFBV"
						for _, a := range a2 {
							if smt.HasQuant(a) {
								logic2 = "ALL"
								break
							}
						}
						s2 := e.scriptLocked(a2, logic2)
						if s2 != script {
							n++
							go func() { ch <- tagged{smt.RunSolver("z3-new", s2, rest+first), true} }()
						}
					}
					var proof *tagged
					for i := 0; i < n; i++ {
						x := <-ch
						all = append(all, x.res)
						if os.Getenv("GOVC_DEBUG") != "" && x.loose {
							fmt.Fprintf(os.Stderr, "loose attempt %s -> %s (%.1fs)\n", r.O.Name(), x.res.Status, x.res.Time)
						}
						if x.res.Status == "unsat" && proof == nil {
							y := x
							proof = &y
							break // the others finish on their own (buffered channel)
						}
						if x.res.Status == "sat" && !x.loose && best.Status != "sat" {
							best = x.res
						}
					}
					if proof != nil {
						best = proof.res
						if proof.loose {
							best.Solver += "+loose"
						}
					}
				}
			}
			r.AllTries = all
			r.Solver = best.Solver
			for _, a := range all {
				r.Time += a.Time
			}
			r.Output = best.Output
			if r.O.Cover {
				switch best.Status {
				case "unsat":
					r.Status = "cover-failed"
				case "sat":
					r.Status = "cover-ok"
				default:
					r.Status = "cover-ok" // inconclusive covers are not alarms
					r.Output = "inconclusive: " + best.Status
				}
				return
			}
			if best.Status != "unsat" && best.Status != "sat" {
				// inconclusive so far (time-outs under load): one patient attempt
				// before the obligation is reported as undecided
				x := smt.RunSolver("z3-new", script, 90*time.Second)
				r.Time += x.Time
				if x.Status == "unsat" || x.Status == "sat" {
					best = x
					r.Solver = "z3-new+patient"
				}
			}
			if !quick && best.Status == "unsat" {
				// thorough tier: the other solvers are asked too; a proof only
				// stands when none of them finds a model
				finalScript := script
				if strings.HasSuffix(r.Solver, "+loose") {
					if a2 := e.emitLocked(r.O, false); a2 != nil {
						logic2 := "QF_UFBV"
						for _, a := range a2 {
							if smt.HasQuant(a) {
								logic2 = "ALL"
								break
							}
						}
						finalScript = e.scriptLocked(a2, logic2)
					}
				}
				r.Cross = map[string]string{strings.TrimSuffix(best.Solver, "+loose"): "unsat"}
				type cr struct{ name, status string; t float64 }
				ch := make(chan cr, 3)
				n := 0
				for _, sv := range []string{"z3-new", "z3", "cvc5"} {
					if _, done := r.Cross[sv]; done {
						continue
					}
					n++
					go func(sv string) {
						x := smt.RunSolver(sv, finalScript, 20*time.Second)
						ch <- cr{sv, x.Status, x.Time}
					}(sv)
				}
				for i := 0; i < n; i++ {
					x := <-ch
					r.Cross[x.name] = x.status
					r.Time += x.t
					if x.status == "sat" {
						best.Status = "sat"
						best.Output = "solver disagreement: " + x.name + " answers sat where " + best.Solver + " answered unsat"
						r.Solver = x.name
					}
				}
			}
			switch best.Status {
			case "unsat":
				r.Status = "proved"
			case "sat":
				r.Status = "failed"
			default:
				r.Status = "undecided"
				var sb strings.Builder
				for _, a := range all {
					fmt.Fprintf(&sb, "%s:%s ", a.Solver, a.Status)
				}
				r.Output = sb.String() + "| " + best.Output
			}
			if r.Status != "proved" {
				r.Script = script
			}
		}(r, script)
	}
	wg.Wait()
	return res
}

// Summary helpers.
func sortedSet(m map[string]bool) []string {
	var out []string
	for k := range m {
		out = append(out, k)
	}
	sort.Strings(out)
	return out
}

// VerifyFunc generates and discharges the obligations of fn.
func VerifyFunc(prog *ssa.Program, db *SpecDB, fn *ssa.Function, quick bool, workers int, keep bool) *FuncResult {
	t0 := time.Now()
	e := NewExec(prog, db, fn)
	e.Generate()
	fr := &FuncResult{Func: e.fnName, Key: funcKey(fn), Problems: e.Probs, HasSpec: e.Spec != nil, Exec: e}
	fr.GenTime = time.Since(t0).Seconds()
	fr.Obls = e.Discharge(quick, workers, keep)
	fr.Externs = sortedSet(e.Externs)
	fr.Inlined = sortedSet(e.Inlined)
	fr.Callees = sortedSet(e.Callees)
	return fr
}

// The term context is not safe for concurrent use: re-emission from solver
// goroutines is serialised.
func (e *Exec) emitLocked(o *Obligation, strict bool) []*smt.Term {
	e.mu.Lock()
	defer e.mu.Unlock()
	asserts := e.EmitMode(o, strict)
	for _, a := range asserts {
		if a.IsFalse() {
			return nil
		}
	}
	return asserts
}

func (e *Exec) scriptLocked(asserts []*smt.Term, logic string) string {
	e.mu.Lock()
	defer e.mu.Unlock()
	return e.C.BuildScript(asserts, logic, false, "")
}

// sameShape: the two terms are built from the same function symbols down to
// the given depth (leaves may differ).  Used by the loose E-matching mode to
// accept, e.g., the level list of identity m for the level list of identity m'.
func sameShape(a, b *smt.Term, depth int) bool {
	if a == b {
		return true
	}
	if a.Sort != b.Sort {
		return false
	}
	if len(a.Args) == 0 || len(b.Args) == 0 {
		// a leaf against anything of the same sort
		return len(a.Args) == 0 && len(b.Args) == 0 || depth < 4
	}
	if a.Op != b.Op || a.Name != b.Name || len(a.Args) != len(b.Args) {
		return false
	}
	if depth == 0 {
		return true
	}
	for i := range a.Args {
		if !sameShape(a.Args[i], b.Args[i], depth-1) {
			return false
		}
	}
	return true
}

// ScriptFor renders the strict query of one obligation.
func (e *Exec) ScriptFor(o *Obligation) string {
	asserts := e.emitLocked(o, true)
	if asserts == nil {
		return ""
	}
	logic := "QF_UFBV"
	for _, a := range asserts {
		if smt.HasQuant(a) {
			logic = "ALL"
			break
		}
	}
	return e.scriptLocked(asserts, logic)
}
